package sym

import (
	"fmt"
	"math/bits"
	"strings"
)

// Term DAG: hash-consed, constant-folding SMT terms over Bool and fixed-width bit-vectors.

type Op uint8

const (
	OpConst Op = iota
	OpVar
	OpNot
	OpAnd
	OpOr
	OpIte
	OpEq
	OpAdd
	OpSub
	OpMul
	OpUDiv
	OpURem
	OpSDiv
	OpSRem
	OpBAnd
	OpBOr
	OpBXor
	OpShl
	OpLShr
	OpAShr
	OpNeg
	OpBNot
	OpULT
	OpULE
	OpSLT
	OpSLE
	OpExtract
	OpZExt
	OpSExt
	OpConcat
)

var opNames = map[Op]string{
	OpNot: "not", OpAnd: "and", OpOr: "or", OpIte: "ite", OpEq: "=",
	OpAdd: "bvadd", OpSub: "bvsub", OpMul: "bvmul", OpUDiv: "bvudiv", OpURem: "bvurem",
	OpSDiv: "bvsdiv", OpSRem: "bvsrem", OpBAnd: "bvand", OpBOr: "bvor", OpBXor: "bvxor",
	OpShl: "bvshl", OpLShr: "bvlshr", OpAShr: "bvashr", OpNeg: "bvneg", OpBNot: "bvnot",
	OpULT: "bvult", OpULE: "bvule", OpSLT: "bvslt", OpSLE: "bvsle", OpConcat: "concat",
}

// W == 0 means Bool.
type Term struct {
	ID   int
	Op   Op
	W    int // bit width; 0 = Bool
	Args []*Term
	C    uint64 // constant value (masked) or bool (0/1)
	Name string // variable name
	A, B int    // extract hi/lo; ext amount in A
	lin  *linForm
}

// linForm: k + Σ coefs[i]*atoms[i] modulo 2^W, atoms sorted by ID (canonical linear normal form).
type linForm struct {
	atoms []*Term
	coefs []uint64
	k     uint64
}

type TermStore struct {
	tab   map[string]*Term
	next  int
	Vars  []*Term
	True  *Term
	False *Term
}

func NewTermStore() *TermStore {
	ts := &TermStore{tab: map[string]*Term{}}
	ts.True = ts.mk(&Term{Op: OpConst, W: 0, C: 1})
	ts.False = ts.mk(&Term{Op: OpConst, W: 0, C: 0})
	return ts
}

func (ts *TermStore) mk(t *Term) *Term {
	var sb strings.Builder
	fmt.Fprintf(&sb, "%d:%d:%d:%s:%d:%d", t.Op, t.W, t.C, t.Name, t.A, t.B)
	for _, a := range t.Args {
		fmt.Fprintf(&sb, ",%d", a.ID)
	}
	k := sb.String()
	if e, ok := ts.tab[k]; ok {
		return e
	}
	ts.next++
	t.ID = ts.next
	ts.tab[k] = t
	if t.Op == OpVar {
		ts.Vars = append(ts.Vars, t)
	}
	return t
}

func mask(w int) uint64 {
	if w >= 64 {
		return ^uint64(0)
	}
	return (uint64(1) << uint(w)) - 1
}

func (t *Term) IsConst() bool { return t.Op == OpConst }
func (t *Term) IsBool() bool  { return t.W == 0 }
func (t *Term) IsTrue() bool  { return t.Op == OpConst && t.W == 0 && t.C == 1 }
func (t *Term) IsFalse() bool { return t.Op == OpConst && t.W == 0 && t.C == 0 }

// signed value of constant
func (t *Term) SVal() int64 {
	return sext(t.C, t.W)
}

func sext(c uint64, w int) int64 {
	if w >= 64 {
		return int64(c)
	}
	if c&(uint64(1)<<uint(w-1)) != 0 {
		return int64(c | ^mask(w))
	}
	return int64(c)
}

func (ts *TermStore) Bool(b bool) *Term {
	if b {
		return ts.True
	}
	return ts.False
}

func (ts *TermStore) BV(v uint64, w int) *Term {
	return ts.mk(&Term{Op: OpConst, W: w, C: v & mask(w)})
}

func (ts *TermStore) Var(name string, w int) *Term {
	return ts.mk(&Term{Op: OpVar, W: w, Name: name})
}

func (ts *TermStore) Not(a *Term) *Term {
	if a.IsConst() {
		return ts.Bool(a.C == 0)
	}
	if a.Op == OpNot {
		return a.Args[0]
	}
	return ts.mk(&Term{Op: OpNot, Args: []*Term{a}})
}

func (ts *TermStore) And(a, b *Term) *Term {
	if a.IsConst() {
		if a.C == 0 {
			return ts.False
		}
		return b
	}
	if b.IsConst() {
		if b.C == 0 {
			return ts.False
		}
		return a
	}
	if a == b {
		return a
	}
	if ts.Not(a) == b {
		return ts.False
	}
	return ts.mk(&Term{Op: OpAnd, Args: []*Term{a, b}})
}

func (ts *TermStore) Or(a, b *Term) *Term {
	if a.IsConst() {
		if a.C == 1 {
			return ts.True
		}
		return b
	}
	if b.IsConst() {
		if b.C == 1 {
			return ts.True
		}
		return a
	}
	if a == b {
		return a
	}
	if ts.Not(a) == b {
		return ts.True
	}
	return ts.mk(&Term{Op: OpOr, Args: []*Term{a, b}})
}

func (ts *TermStore) Implies(a, b *Term) *Term { return ts.Or(ts.Not(a), b) }

func (ts *TermStore) AndAll(xs ...*Term) *Term {
	r := ts.True
	for _, x := range xs {
		r = ts.And(r, x)
	}
	return r
}

func (ts *TermStore) Ite(c, a, b *Term) *Term {
	if c.IsConst() {
		if c.C == 1 {
			return a
		}
		return b
	}
	if a == b {
		return a
	}
	if a.W != b.W {
		panic(fmt.Sprintf("ite width mismatch %d %d", a.W, b.W))
	}
	if a.W == 0 {
		if a.IsTrue() && b.IsFalse() {
			return c
		}
		if a.IsFalse() && b.IsTrue() {
			return ts.Not(c)
		}
		if a.IsTrue() {
			return ts.Or(c, b)
		}
		if a.IsFalse() {
			return ts.And(ts.Not(c), b)
		}
		if b.IsTrue() {
			return ts.Or(ts.Not(c), a)
		}
		if b.IsFalse() {
			return ts.And(c, a)
		}
	}
	if c.Op == OpNot {
		return ts.Ite(c.Args[0], b, a)
	}
	return ts.mk(&Term{Op: OpIte, W: a.W, Args: []*Term{c, a, b}})
}

func (ts *TermStore) Eq(a, b *Term) *Term {
	if a.W != b.W {
		panic(fmt.Sprintf("eq width mismatch %d %d", a.W, b.W))
	}
	if a == b {
		return ts.True
	}
	if a.IsConst() && b.IsConst() {
		return ts.Bool(a.C == b.C)
	}
	if a.W == 0 {
		if a.IsConst() {
			a, b = b, a
		}
		if b.IsTrue() {
			return a
		}
		if b.IsFalse() {
			return ts.Not(a)
		}
	}
	// ite-chain of constants == k: push the comparison through the chain
	if a.IsConst() {
		a, b = b, a
	}
	if b.IsConst() && a.Op == OpIte && a.W > 0 {
		depth := 0
		for x := a; x.Op == OpIte && (x.Args[1].IsConst() || x.Args[2].IsConst()); depth++ {
			if x.Args[1].IsConst() {
				x = x.Args[2]
			} else {
				x = x.Args[1]
			}
			if depth > 40 {
				break
			}
		}
		if a.Args[1].IsConst() && (a.Args[2].IsConst() || (a.Args[2].Op == OpIte && depth <= 40)) {
			return ts.Ite(a.Args[0], ts.Bool(a.Args[1].C == b.C), ts.Eq(a.Args[2], b))
		}
		if a.Args[2].IsConst() && a.Args[1].Op == OpIte && depth <= 40 {
			return ts.Ite(a.Args[0], ts.Eq(a.Args[1], b), ts.Bool(a.Args[2].C == b.C))
		}
	}
	if a.W > 0 {
		// cancel common linear parts: a == b  <=>  pos == neg with d = a - b split by coefficient sign
		la, lb := ts.linOf(a), ts.linOf(b)
		if len(la.atoms)+len(lb.atoms) > 0 && (len(la.atoms) > 1 || len(lb.atoms) > 1 || la.k != 0 && len(la.atoms) > 0 || lb.k != 0 && len(lb.atoms) > 0 || (len(la.atoms) == 1 && la.coefs[0] != 1) || (len(lb.atoms) == 1 && lb.coefs[0] != 1) || (len(la.atoms) == 1 && len(lb.atoms) == 1)) {
			d := linMerge(la, lb, ^uint64(0), a.W)
			if len(d.atoms) == 0 {
				return ts.Bool(d.k == 0)
			}
			half := uint64(1) << uint(a.W-1)
			pos := &linForm{}
			neg := &linForm{}
			for i, at := range d.atoms {
				if d.coefs[i] < half {
					pos.atoms = append(pos.atoms, at)
					pos.coefs = append(pos.coefs, d.coefs[i])
				} else {
					neg.atoms = append(neg.atoms, at)
					neg.coefs = append(neg.coefs, (-d.coefs[i])&mask(a.W))
				}
			}
			// Σpos + k == Σneg ; a "negative" constant moves to the right-hand side
			if d.k < half {
				pos.k = d.k
			} else {
				neg.k = (-d.k) & mask(a.W)
			}
			a = ts.buildLin(pos, a.W)
			b = ts.buildLin(neg, a.W)
			if a == b {
				return ts.True
			}
			if a.IsConst() && b.IsConst() {
				return ts.Bool(a.C == b.C)
			}
		}
	}
	if a.ID > b.ID {
		a, b = b, a
	}
	return ts.mk(&Term{Op: OpEq, Args: []*Term{a, b}})
}

func (ts *TermStore) bin(op Op, a, b *Term) *Term {
	if a.W != b.W || a.W == 0 {
		panic(fmt.Sprintf("bv op %v width mismatch %d %d", opNames[op], a.W, b.W))
	}
	w := a.W
	if a.IsConst() && b.IsConst() {
		x, y := a.C, b.C
		sx, sy := sext(x, w), sext(y, w)
		switch op {
		case OpAdd:
			return ts.BV(x+y, w)
		case OpSub:
			return ts.BV(x-y, w)
		case OpMul:
			return ts.BV(x*y, w)
		case OpBAnd:
			return ts.BV(x&y, w)
		case OpBOr:
			return ts.BV(x|y, w)
		case OpBXor:
			return ts.BV(x^y, w)
		case OpUDiv:
			if y == 0 {
				return ts.BV(mask(w), w)
			}
			return ts.BV(x/y, w)
		case OpURem:
			if y == 0 {
				return ts.BV(x, w)
			}
			return ts.BV(x%y, w)
		case OpSDiv:
			if y == 0 {
				if sx >= 0 {
					return ts.BV(mask(w), w)
				}
				return ts.BV(1, w)
			}
			if sy == -1 {
				return ts.BV(uint64(-sx), w)
			}
			return ts.BV(uint64(sx/sy), w)
		case OpSRem:
			if y == 0 {
				return ts.BV(x, w)
			}
			if sy == -1 {
				return ts.BV(0, w)
			}
			return ts.BV(uint64(sx%sy), w)
		case OpShl:
			if y >= uint64(w) {
				return ts.BV(0, w)
			}
			return ts.BV(x<<y, w)
		case OpLShr:
			if y >= uint64(w) {
				return ts.BV(0, w)
			}
			return ts.BV(x>>y, w)
		case OpAShr:
			if y >= uint64(w) {
				if sx < 0 {
					return ts.BV(mask(w), w)
				}
				return ts.BV(0, w)
			}
			return ts.BV(uint64(sx>>y), w)
		}
	}
	switch op {
	case OpAdd:
		if a.IsConst() && a.C == 0 {
			return b
		}
		if b.IsConst() && b.C == 0 {
			return a
		}
		if a.IsConst() {
			a, b = b, a
		}
		// (x + c1) + c2
		if b.IsConst() && a.Op == OpAdd && a.Args[1].IsConst() {
			return ts.bin(OpAdd, a.Args[0], ts.BV(a.Args[1].C+b.C, w))
		}
	case OpSub:
		if b.IsConst() && b.C == 0 {
			return a
		}
		if a == b {
			return ts.BV(0, w)
		}
		if b.IsConst() {
			return ts.bin(OpAdd, a, ts.BV(-b.C, w))
		}
	case OpMul:
		if a.IsConst() {
			a, b = b, a
		}
		if b.IsConst() {
			if b.C == 0 {
				return b
			}
			if b.C == 1 {
				return a
			}
		}
	case OpBAnd:
		if a == b {
			return a
		}
		if a.IsConst() {
			a, b = b, a
		}
		if b.IsConst() {
			if b.C == 0 {
				return b
			}
			if b.C == mask(w) {
				return a
			}
		}
	case OpBOr, OpBXor:
		if a.IsConst() {
			a, b = b, a
		}
		if b.IsConst() && b.C == 0 {
			return a
		}
	case OpShl, OpLShr, OpAShr:
		if b.IsConst() && b.C == 0 {
			return a
		}
	case OpSDiv, OpUDiv:
		if b.IsConst() && b.C == 1 {
			return a
		}
	case OpSRem, OpURem:
		if b.IsConst() && b.C == 1 {
			return ts.BV(0, w)
		}
	}
	return ts.mk(&Term{Op: op, W: w, Args: []*Term{a, b}})
}

func (ts *TermStore) Add(a, b *Term) *Term {
	if a.IsConst() && b.IsConst() {
		return ts.bin(OpAdd, a, b)
	}
	return ts.buildLin(linMerge(ts.linOf(a), ts.linOf(b), 1, a.W), a.W)
}
func (ts *TermStore) Sub(a, b *Term) *Term {
	if a.IsConst() && b.IsConst() {
		return ts.bin(OpSub, a, b)
	}
	return ts.buildLin(linMerge(ts.linOf(a), ts.linOf(b), ^uint64(0), a.W), a.W)
}
func (ts *TermStore) Mul(a, b *Term) *Term {
	if a.IsConst() && !b.IsConst() {
		a, b = b, a
	}
	if b.IsConst() && !a.IsConst() {
		return ts.buildLin(linScale(ts.linOf(a), b.C, a.W), a.W)
	}
	return ts.bin(OpMul, a, b)
}
func (ts *TermStore) UDiv(a, b *Term) *Term { return ts.bin(OpUDiv, a, b) }
func (ts *TermStore) URem(a, b *Term) *Term { return ts.bin(OpURem, a, b) }
func (ts *TermStore) SDiv(a, b *Term) *Term { return ts.bin(OpSDiv, a, b) }
func (ts *TermStore) SRem(a, b *Term) *Term { return ts.bin(OpSRem, a, b) }
func (ts *TermStore) BAnd(a, b *Term) *Term { return ts.bin(OpBAnd, a, b) }
func (ts *TermStore) BOr(a, b *Term) *Term  { return ts.bin(OpBOr, a, b) }
func (ts *TermStore) BXor(a, b *Term) *Term { return ts.bin(OpBXor, a, b) }
func (ts *TermStore) Shl(a, b *Term) *Term  { return ts.bin(OpShl, a, b) }
func (ts *TermStore) LShr(a, b *Term) *Term { return ts.bin(OpLShr, a, b) }
func (ts *TermStore) AShr(a, b *Term) *Term { return ts.bin(OpAShr, a, b) }

func (ts *TermStore) Neg(a *Term) *Term {
	if a.IsConst() {
		return ts.BV(-a.C, a.W)
	}
	return ts.buildLin(linScale(ts.linOf(a), ^uint64(0), a.W), a.W)
}

// linOf returns the linear form of a bit-vector term (cached).
func (ts *TermStore) linOf(t *Term) *linForm {
	if t.lin != nil {
		return t.lin
	}
	var l *linForm
	switch {
	case t.Op == OpConst:
		l = &linForm{k: t.C}
	case t.Op == OpAdd:
		l = linMerge(ts.linOf(t.Args[0]), ts.linOf(t.Args[1]), 1, t.W)
	case t.Op == OpSub:
		l = linMerge(ts.linOf(t.Args[0]), ts.linOf(t.Args[1]), ^uint64(0), t.W)
	case t.Op == OpNeg:
		l = linScale(ts.linOf(t.Args[0]), ^uint64(0), t.W)
	case t.Op == OpMul && t.Args[1].IsConst():
		l = linScale(ts.linOf(t.Args[0]), t.Args[1].C, t.W)
	case t.Op == OpMul && t.Args[0].IsConst():
		l = linScale(ts.linOf(t.Args[1]), t.Args[0].C, t.W)
	default:
		l = &linForm{atoms: []*Term{t}, coefs: []uint64{1}}
	}
	t.lin = l
	return l
}

// linMerge computes a + s*b (mod 2^w).
func linMerge(a, b *linForm, s uint64, w int) *linForm {
	m := mask(w)
	r := &linForm{k: (a.k + s*b.k) & m}
	i, j := 0, 0
	for i < len(a.atoms) || j < len(b.atoms) {
		switch {
		case j >= len(b.atoms) || (i < len(a.atoms) && a.atoms[i].ID < b.atoms[j].ID):
			r.atoms = append(r.atoms, a.atoms[i])
			r.coefs = append(r.coefs, a.coefs[i])
			i++
		case i >= len(a.atoms) || b.atoms[j].ID < a.atoms[i].ID:
			c := (s * b.coefs[j]) & m
			if c != 0 {
				r.atoms = append(r.atoms, b.atoms[j])
				r.coefs = append(r.coefs, c)
			}
			j++
		default:
			c := (a.coefs[i] + s*b.coefs[j]) & m
			if c != 0 {
				r.atoms = append(r.atoms, a.atoms[i])
				r.coefs = append(r.coefs, c)
			}
			i++
			j++
		}
	}
	return r
}

func linScale(a *linForm, s uint64, w int) *linForm {
	m := mask(w)
	r := &linForm{k: (a.k * s) & m}
	for i, at := range a.atoms {
		c := (a.coefs[i] * s) & m
		if c != 0 {
			r.atoms = append(r.atoms, at)
			r.coefs = append(r.coefs, c)
		}
	}
	return r
}

// buildLin builds the canonical term of a linear form.
func (ts *TermStore) buildLin(l *linForm, w int) *Term {
	if len(l.atoms) == 0 {
		return ts.BV(l.k, w)
	}
	if len(l.atoms) == 1 && l.coefs[0] == 1 && l.k == 0 {
		return l.atoms[0]
	}
	half := uint64(1) << uint(w-1)
	var acc *Term
	// positive coefficients first
	for i, at := range l.atoms {
		c := l.coefs[i]
		if c >= half {
			continue
		}
		var t *Term
		if c == 1 {
			t = at
		} else {
			t = ts.mk(&Term{Op: OpMul, W: w, Args: []*Term{at, ts.BV(c, w)}})
		}
		if acc == nil {
			acc = t
		} else {
			acc = ts.mk(&Term{Op: OpAdd, W: w, Args: []*Term{acc, t}})
		}
	}
	for i, at := range l.atoms {
		c := l.coefs[i]
		if c < half {
			continue
		}
		nc := (-c) & mask(w)
		var t *Term
		if nc == 1 {
			t = at
		} else {
			t = ts.mk(&Term{Op: OpMul, W: w, Args: []*Term{at, ts.BV(nc, w)}})
		}
		if acc == nil {
			acc = ts.mk(&Term{Op: OpNeg, W: w, Args: []*Term{t}})
		} else {
			acc = ts.mk(&Term{Op: OpSub, W: w, Args: []*Term{acc, t}})
		}
	}
	if l.k != 0 {
		acc = ts.mk(&Term{Op: OpAdd, W: w, Args: []*Term{acc, ts.BV(l.k, w)}})
	}
	acc.lin = l
	return acc
}

func (ts *TermStore) BNot(a *Term) *Term {
	if a.IsConst() {
		return ts.BV(^a.C, a.W)
	}
	return ts.mk(&Term{Op: OpBNot, W: a.W, Args: []*Term{a}})
}

func (ts *TermStore) cmp(op Op, a, b *Term) *Term {
	if a.W != b.W || a.W == 0 {
		panic(fmt.Sprintf("cmp width mismatch %d %d", a.W, b.W))
	}
	if a.IsConst() && b.IsConst() {
		sx, sy := sext(a.C, a.W), sext(b.C, b.W)
		switch op {
		case OpULT:
			return ts.Bool(a.C < b.C)
		case OpULE:
			return ts.Bool(a.C <= b.C)
		case OpSLT:
			return ts.Bool(sx < sy)
		case OpSLE:
			return ts.Bool(sx <= sy)
		}
	}
	if a == b {
		return ts.Bool(op == OpULE || op == OpSLE)
	}
	return ts.mk(&Term{Op: op, Args: []*Term{a, b}})
}

func (ts *TermStore) ULT(a, b *Term) *Term { return ts.cmp(OpULT, a, b) }
func (ts *TermStore) ULE(a, b *Term) *Term { return ts.Not(ts.cmp(OpULT, b, a)) }
func (ts *TermStore) SLT(a, b *Term) *Term { return ts.cmp(OpSLT, a, b) }
func (ts *TermStore) SLE(a, b *Term) *Term { return ts.Not(ts.cmp(OpSLT, b, a)) }

func (ts *TermStore) Extract(a *Term, hi, lo int) *Term {
	w := hi - lo + 1
	if lo == 0 && w == a.W {
		return a
	}
	if a.IsConst() {
		return ts.BV(a.C>>uint(lo), w)
	}
	if (a.Op == OpZExt || a.Op == OpSExt) && lo == 0 && w <= a.Args[0].W {
		return ts.Extract(a.Args[0], hi, 0)
	}
	return ts.mk(&Term{Op: OpExtract, W: w, Args: []*Term{a}, A: hi, B: lo})
}

func (ts *TermStore) ZExt(a *Term, to int) *Term {
	if to == a.W {
		return a
	}
	if a.IsConst() {
		return ts.BV(a.C, to)
	}
	return ts.mk(&Term{Op: OpZExt, W: to, Args: []*Term{a}, A: to - a.W})
}

func (ts *TermStore) SExt(a *Term, to int) *Term {
	if to == a.W {
		return a
	}
	if a.IsConst() {
		return ts.BV(uint64(sext(a.C, a.W)), to)
	}
	return ts.mk(&Term{Op: OpSExt, W: to, Args: []*Term{a}, A: to - a.W})
}

// Resize converts a bit-vector to width `to`, sign- or zero-extending, or truncating.
func (ts *TermStore) Resize(a *Term, to int, signed bool) *Term {
	if to == a.W {
		return a
	}
	if to < a.W {
		return ts.Extract(a, to-1, 0)
	}
	if signed {
		return ts.SExt(a, to)
	}
	return ts.ZExt(a, to)
}

// ---------------------------------------------------------------------------
// SMT-LIB printing

func sortStr(w int) string {
	if w == 0 {
		return "Bool"
	}
	return fmt.Sprintf("(_ BitVec %d)", w)
}

func constStr(t *Term) string {
	if t.W == 0 {
		if t.C == 1 {
			return "true"
		}
		return "false"
	}
	if t.W%4 == 0 {
		return fmt.Sprintf("#x%0*x", t.W/4, t.C)
	}
	return fmt.Sprintf("#b%0*b", t.W, t.C)
}

// smtName returns the name by which a term is referenced in a session (after definition).
func smtName(t *Term) string {
	switch t.Op {
	case OpConst:
		return constStr(t)
	case OpVar:
		return "|" + t.Name + "|"
	}
	return fmt.Sprintf("t%d", t.ID)
}

func smtBody(t *Term) string {
	var sb strings.Builder
	switch t.Op {
	case OpExtract:
		fmt.Fprintf(&sb, "((_ extract %d %d) %s)", t.A, t.B, smtName(t.Args[0]))
	case OpZExt:
		fmt.Fprintf(&sb, "((_ zero_extend %d) %s)", t.A, smtName(t.Args[0]))
	case OpSExt:
		fmt.Fprintf(&sb, "((_ sign_extend %d) %s)", t.A, smtName(t.Args[0]))
	default:
		sb.WriteString("(")
		sb.WriteString(opNames[t.Op])
		for _, a := range t.Args {
			sb.WriteString(" ")
			sb.WriteString(smtName(a))
		}
		sb.WriteString(")")
	}
	return sb.String()
}

// Eval evaluates a term under an assignment of variables (by name); missing variables are 0.
func (ts *TermStore) Eval(t *Term, env map[string]uint64, memo map[int]uint64) uint64 {
	if v, ok := memo[t.ID]; ok {
		return v
	}
	var r uint64
	arg := func(i int) uint64 { return ts.Eval(t.Args[i], env, memo) }
	switch t.Op {
	case OpConst:
		r = t.C
	case OpVar:
		r = env[t.Name] & maskB(t.W)
	case OpNot:
		r = 1 - arg(0)
	case OpAnd:
		r = arg(0) & arg(1)
	case OpOr:
		r = arg(0) | arg(1)
	case OpIte:
		if arg(0) == 1 {
			r = arg(1)
		} else {
			r = arg(2)
		}
	case OpEq:
		if arg(0) == arg(1) {
			r = 1
		}
	case OpULT, OpULE, OpSLT, OpSLE:
		w := t.Args[0].W
		c := ts.cmp(t.Op, ts.BV(arg(0), w), ts.BV(arg(1), w))
		r = c.C
	case OpNeg:
		r = (-arg(0)) & mask(t.W)
	case OpBNot:
		r = (^arg(0)) & mask(t.W)
	case OpExtract:
		r = (arg(0) >> uint(t.B)) & mask(t.W)
	case OpZExt:
		r = arg(0)
	case OpSExt:
		r = uint64(sext(arg(0), t.Args[0].W)) & mask(t.W)
	case OpConcat:
		r = (arg(0)<<uint(t.Args[1].W) | arg(1)) & mask(t.W)
	default:
		c := ts.bin(t.Op, ts.BV(arg(0), t.W), ts.BV(arg(1), t.W))
		r = c.C
	}
	memo[t.ID] = r
	return r
}

func maskB(w int) uint64 {
	if w == 0 {
		return 1
	}
	return mask(w)
}

func (ts *TermStore) Concat(a, b *Term) *Term {
	w := a.W + b.W
	if a.IsConst() && b.IsConst() {
		return ts.BV(a.C<<uint(b.W)|b.C, w)
	}
	return ts.mk(&Term{Op: OpConcat, W: w, Args: []*Term{a, b}})
}

func (t *Term) String() string {
	switch t.Op {
	case OpConst:
		if t.W == 0 {
			return constStr(t)
		}
		return fmt.Sprintf("%d", sext(t.C, t.W))
	case OpVar:
		return t.Name
	case OpExtract:
		return fmt.Sprintf("%s[%d:%d]", t.Args[0], t.A, t.B)
	}
	var parts []string
	for _, a := range t.Args {
		parts = append(parts, a.String())
	}
	n := opNames[t.Op]
	if t.Op == OpZExt {
		n = "zext"
	}
	if t.Op == OpSExt {
		n = "sext"
	}
	return "(" + n + " " + strings.Join(parts, " ") + ")"
}

var _ = bits.Len

// ---------------------------------------------------------------------------
// Integer-mode printing (used only for queries whose terms were proven overflow-free, see intsafe.go)

func sortStrI(w int) string {
	if w == 0 {
		return "Bool"
	}
	return "Int"
}

func constStrI(t *Term) string {
	if t.W == 0 {
		return constStr(t)
	}
	v := sext(t.C, t.W)
	if v < 0 {
		if v == -9223372036854775808 {
			return "(- 9223372036854775808)"
		}
		return fmt.Sprintf("(- %d)", -v)
	}
	return fmt.Sprintf("%d", v)
}

func smtNameI(t *Term) string {
	switch t.Op {
	case OpConst:
		return constStrI(t)
	case OpVar:
		return "|" + t.Name + "|"
	}
	return fmt.Sprintf("t%d", t.ID)
}

var opNamesI = map[Op]string{
	OpNot: "not", OpAnd: "and", OpOr: "or", OpIte: "ite", OpEq: "=",
	OpAdd: "+", OpSub: "-", OpMul: "*", OpNeg: "-", OpSLT: "<", OpULT: "<", OpSDiv: "div", OpSRem: "mod", OpUDiv: "div", OpURem: "mod",
}

func smtBodyI(t *Term) string {
	var sb strings.Builder
	if t.Op == OpExtract || t.Op == OpSExt || t.Op == OpZExt {
		// only value-preserving width changes reach integer mode (intsafe.go)
		return smtNameI(t.Args[0])
	}
	if t.Op == OpULT {
		// unsigned comparison of exact signed values
		a, b := smtNameI(t.Args[0]), smtNameI(t.Args[1])
		return fmt.Sprintf("(ite (>= %s 0) (or (< %s 0) (< %s %s)) (and (< %s 0) (< %s %s)))", a, b, a, b, b, a, b)
	}
	n, ok := opNamesI[t.Op]
	if !ok {
		panic("integer mode: unsupported op " + opNames[t.Op])
	}
	sb.WriteString("(")
	sb.WriteString(n)
	for _, a := range t.Args {
		sb.WriteString(" ")
		sb.WriteString(smtNameI(a))
	}
	sb.WriteString(")")
	return sb.String()
}

package sym

import (
	"fmt"
	"os"
	"strings"

	"golang.org/x/tools/go/ssa"
)

var debugMerge = os.Getenv("GOSYM_DEBUG_MERGE") != ""
var mergeMode = os.Getenv("GOSYM_MERGE_MODE")
var mergeSkip = os.Getenv("GOSYM_MERGE_SKIP")


// Pure-region if-conversion (DESIGN §2.3): both sides of a feasible two-way branch are executed
// speculatively up to the immediate post-dominator of the branch block and merged with ite terms.
// Any precondition failure falls back to path forking, so merging is an optimisation only.

func (in *Interp) ipdom(fn *ssa.Function) map[*ssa.BasicBlock]*ssa.BasicBlock {
	if m, ok := in.pdomCache[fn]; ok {
		return m
	}
	n := len(fn.Blocks)
	// node n = virtual exit
	succs := make([][]int, n+1)
	for _, b := range fn.Blocks {
		if len(b.Succs) == 0 {
			succs[b.Index] = []int{n}
		}
		for _, s := range b.Succs {
			succs[b.Index] = append(succs[b.Index], s.Index)
		}
	}
	// postdominator sets via iterative dataflow (bitsets as []bool; functions are small)
	pd := make([][]bool, n+1)
	for i := range pd {
		pd[i] = make([]bool, n+1)
		for j := range pd[i] {
			pd[i][j] = true
		}
	}
	for j := range pd[n] {
		pd[n][j] = j == n
	}
	changed := true
	for changed {
		changed = false
		for i := n - 1; i >= 0; i-- {
			nw := make([]bool, n+1)
			for j := range nw {
				nw[j] = true
			}
			if len(succs[i]) == 0 {
				for j := range nw {
					nw[j] = false
				}
			}
			for _, s := range succs[i] {
				for j := range nw {
					nw[j] = nw[j] && pd[s][j]
				}
			}
			nw[i] = true
			for j := range nw {
				if nw[j] != pd[i][j] {
					changed = true
				}
			}
			pd[i] = nw
		}
	}
	res := map[*ssa.BasicBlock]*ssa.BasicBlock{}
	for i := 0; i < n; i++ {
		// immediate postdominator: the strict postdominator that is postdominated by all other strict postdominators
		var cands []int
		for j := 0; j <= n; j++ {
			if j != i && pd[i][j] {
				cands = append(cands, j)
			}
		}
		best := -1
		for _, c := range cands {
			ok := true
			for _, d := range cands {
				if d != c && !pd[c][d] {
					ok = false
					break
				}
			}
			if ok {
				best = c
				break
			}
		}
		if best >= 0 && best < n {
			res[fn.Blocks[i]] = fn.Blocks[best]
		}
	}
	in.pdomCache[fn] = res
	return res
}

type sideResult struct {
	writes  map[*Cell]Value
	phis    []Value
	ret     Value
	ok      bool
	envDiff map[ssa.Value]Value // registers that existed before the branch and were redefined by the side (loop-carried values)
}

// identicalValue: conservative identity test on register values.
func identicalValue(a, b Value) bool {
	switch x := a.(type) {
	case *Term:
		y, ok := b.(*Term)
		return ok && x == y
	case Ptr:
		y, ok := b.(Ptr)
		return ok && ptrEq(x, y)
	case SliceV:
		y, ok := b.(SliceV)
		return ok && x == y
	case StrV:
		y, ok := b.(StrV)
		if !ok || (x.sym == nil) != (y.sym == nil) {
			return false
		}
		if x.sym == nil {
			return x.s == y.s
		}
		if len(x.sym) != len(y.sym) {
			return false
		}
		for i := range x.sym {
			if x.sym[i] != y.sym[i] {
				return false
			}
		}
		return true
	case MapV:
		y, ok := b.(MapV)
		return ok && x.m == y.m
	case IfaceV:
		y, ok := b.(IfaceV)
		if !ok {
			return false
		}
		if x.t == nil || y.t == nil {
			return x.t == nil && y.t == nil
		}
		return x.t == y.t && identicalValue(x.v, y.v)
	case *ssa.Function:
		return a == b
	case *mapIter:
		return a == b
	case nil:
		return b == nil
	case TupleV:
		y, ok := b.(TupleV)
		if !ok || len(x) != len(y) {
			return false
		}
		for i := range x {
			if !identicalValue(x[i], y[i]) {
				return false
			}
		}
		return true
	case StructV:
		y, ok := b.(StructV)
		if !ok || len(x) != len(y) {
			return false
		}
		for i := range x {
			if !identicalValue(x[i], y[i]) {
				return false
			}
		}
		return true
	}
	return false
}

// runSide executes one side of the branch speculatively and undoes its effects.
func (in *Interp) runSide(fr *Frame, b *ssa.BasicBlock, start, join *ssa.BasicBlock, cond *Term) (res sideResult) {
	jstart := len(in.journal)
	pcLen := len(in.pc)
	knownLen := len(in.knownLog)
	savedBlock, savedPrev, savedDefers := fr.block, fr.prev, len(fr.defers)
	savedDepth := in.depth
	savedSteps := in.steps
	// registers: a side may run through loop headers and redefine registers that are live at the
	// branch; the frame's environment is restored after the side
	savedEnv := make(map[ssa.Value]Value, len(fr.env))
	for k, v := range fr.env {
		savedEnv[k] = v
	}
	in.spec++
	defer func() {
		in.spec--
		// undo
		finalVals := map[*Cell]Value{}
		for k := len(in.journal) - 1; k >= jstart; k-- {
			e := in.journal[k]
			if _, seen := finalVals[e.c]; !seen {
				finalVals[e.c] = e.c.v
			}
			e.c.v = e.old
		}
		in.journal = in.journal[:jstart]
		in.pc = in.pc[:pcLen]
		in.pcHash = in.pcHash[:pcLen]
		for _, id := range in.knownLog[knownLen:] {
			delete(in.known, id)
		}
		in.knownLog = in.knownLog[:knownLen]
		fr.block, fr.prev = savedBlock, savedPrev
		// registers defined before the branch and redefined by the side (a side that runs through a loop
		// header redefines the loop's phis, which may be read at or after the join)
		diff := map[ssa.Value]Value{}
		for k, old := range savedEnv {
			if nv, ok := fr.env[k]; ok && !identicalValue(old, nv) {
				diff[k] = nv
			}
		}
		res.envDiff = diff
		fr.env = savedEnv
		fr.defers = fr.defers[:savedDefers]
		fr.done = false
		fr.skipPhis = false
		in.depth = savedDepth
		if r := recover(); r != nil {
			if sa, isAbort := r.(specAbort); isAbort {
				if debugMerge {
					fmt.Fprintf(os.Stderr, "merge abort in %s block %d: %s\n", fr.fn, b.Index, sa.why)
				}
				res = sideResult{ok: false}
				return
			}
			if pe, isEnd := r.(pathEnd); isEnd && pe.kind == "infeasible" {
				res = sideResult{ok: false}
				return
			}
			panic(r)
		}
		res.writes = finalVals
	}()
	// budget
	budget := in.cfg.SpecBudget
	if in.cfg.MaxSteps-in.steps > budget {
		defer func(old int) { in.cfg.MaxSteps = old }(in.cfg.MaxSteps)
		in.cfg.MaxSteps = in.steps + budget
	}
	_ = savedSteps
	in.assume(cond)
	fr.prev = b
	fr.block = start
	if join == nil {
		// both sides are expected to return from the function
		in.runFrame(fr, nil)
		if !fr.done {
			panic(specAbort{"side did not return"})
		}
		res.ret = fr.result
		res.ok = true
		return
	}
	if start != join {
		in.runFrame(fr, join)
	}
	// phi values of the join block: a nested merge that ended at this very join block has already
	// computed them (merged); otherwise they are read along the incoming edge
	if fr.skipPhis {
		for _, instr := range join.Instrs {
			phi, ok := instr.(*ssa.Phi)
			if !ok {
				break
			}
			res.phis = append(res.phis, fr.env[phi])
		}
		res.ok = true
		return
	}
	idx := -1
	for k, p := range join.Preds {
		if p == fr.prev {
			idx = k
			break
		}
	}
	if idx < 0 {
		panic(specAbort{"join predecessor not found"})
	}
	for _, instr := range join.Instrs {
		phi, ok := instr.(*ssa.Phi)
		if !ok {
			break
		}
		res.phis = append(res.phis, fr.get(in, phi.Edges[idx]))
	}
	res.ok = true
	return
}

// tryMerge returns ok=true on success (phis/heap merged). join==nil with ok means both sides returned
// from the function and fr.result holds the merged result.
func (in *Interp) tryMerge(fr *Frame, b *ssa.BasicBlock, cond *Term) (okRes bool, joinRes *ssa.BasicBlock) {
	if in.cfg.NoMerge {
		return false, nil
	}
	join := in.ipdom(fr.fn)[b]
	if join == nil && len(fr.defers) > 0 {
		return false, nil
	}
	if join == nil && mergeMode == "no-ret" {
		return false, nil
	}
	if mergeSkip != "" && strings.Contains(fr.fn.String(), mergeSkip) {
		return false, nil
	}
	if in.mergeBlacklist[b] >= 3 {
		return false, nil
	}
	a := in.runSide(fr, b, b.Succs[0], join, cond)
	if !a.ok {
		in.Stats.MergeFails++
		in.mergeBlacklist[b]++
		return false, nil
	}
	c := in.runSide(fr, b, b.Succs[1], join, in.ts.Not(cond))
	if !c.ok {
		in.Stats.MergeFails++
		in.mergeBlacklist[b]++
		return false, nil
	}
	if mergeMode == "phi-only" && (len(a.writes) > 0 || len(c.writes) > 0) {
		return false, nil
	}
	// merge heap
	type upd struct {
		c *Cell
		v Value
	}
	var upds []upd
	for cell, va := range a.writes {
		vb, ok := c.writes[cell]
		if !ok {
			vb = cell.v
		}
		mv, ok := in.mergeValue(cond, va, vb)
		if !ok && debugMerge {
			fmt.Fprintf(os.Stderr, "merge value fail in %s block %d: %T vs %T\n", fr.fn, b.Index, va, vb)
		}
		if !ok {
			in.Stats.MergeFails++
			in.mergeBlacklist[b]++
			return false, nil
		}
		upds = append(upds, upd{cell, mv})
	}
	for cell, vb := range c.writes {
		if _, ok := a.writes[cell]; ok {
			continue
		}
		mv, ok := in.mergeValue(cond, cell.v, vb)
		if !ok {
			in.Stats.MergeFails++
			in.mergeBlacklist[b]++
			return false, nil
		}
		upds = append(upds, upd{cell, mv})
	}
	var phiVals []Value
	for k := range a.phis {
		mv, ok := in.mergeValue(cond, a.phis[k], c.phis[k])
		if !ok {
			in.Stats.MergeFails++
			in.mergeBlacklist[b]++
			return false, nil
		}
		phiVals = append(phiVals, mv)
	}
	// loop-carried registers
	type regUpd struct {
		k ssa.Value
		v Value
	}
	var regUpds []regUpd
	if join != nil {
		seenReg := map[ssa.Value]bool{}
		for _, side := range []map[ssa.Value]Value{a.envDiff, c.envDiff} {
			for k := range side {
				if seenReg[k] {
					continue
				}
				seenReg[k] = true
				va, oka := a.envDiff[k]
				if !oka {
					va = fr.env[k]
				}
				vb, okb := c.envDiff[k]
				if !okb {
					vb = fr.env[k]
				}
				mv, ok := in.mergeValue(cond, va, vb)
				if !ok {
					in.Stats.MergeFails++
					in.mergeBlacklist[b]++
					return false, nil
				}
				regUpds = append(regUpds, regUpd{k, mv})
			}
		}
	}
	var retVal Value
	if join == nil {
		mv, ok := in.mergeValue(cond, a.ret, c.ret)
		if !ok {
			in.Stats.MergeFails++
			in.mergeBlacklist[b]++
			return false, nil
		}
		retVal = mv
	}
	// commit
	in.mergeBlacklist[b] = 0
	for _, u := range upds {
		in.journalCell(u.c)
		u.c.v = u.v
	}
	in.Stats.Merges++
	if debugMerge {
		jn := -1
		if join != nil {
			jn = join.Index
		}
		fmt.Fprintf(os.Stderr, "merge ok in %s block %d join %d writes=%d/%d phis=%d\n", fr.fn, b.Index, jn, len(a.writes), len(c.writes), len(phiVals))
	}
	if join == nil {
		fr.result = retVal
		fr.done = true
		return true, nil
	}
	for _, u := range regUpds {
		fr.env[u.k] = u.v
	}
	for k, instr := range join.Instrs {
		phi, ok := instr.(*ssa.Phi)
		if !ok {
			break
		}
		fr.env[phi] = phiVals[k]
	}
	return true, join
}

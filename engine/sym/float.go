package sym

import (
	"fmt"
	"go/token"
	"math"
)

// Floats are lowered to exact integer arithmetic (DESIGN §2.4). Every lowering carries a range
// obligation (|operands| < 2^26) under which IEEE-754 double arithmetic followed by
// floor/ceil/compare/convert-to-int is exact. Anything else is refused (inconclusive).

const floatRangeBits = 26

func (in *Interp) floatRange(t *Term) {
	if t.IsConst() {
		v := t.SVal()
		if v > -(1<<floatRangeBits) && v < (1<<floatRangeBits) {
			return
		}
		panic(unsupported{"float lowering: constant outside exact range"})
	}
	ts := in.ts
	lim := ts.BV(1<<floatRangeBits, 64)
	bad := ts.Not(ts.And(ts.SLT(ts.Neg(lim), t), ts.SLT(t, lim)))
	if in.decide(bad) != 0 {
		panic(unsupported{"float lowering: operand not provably within the exact range (|x| < 2^26)"})
	}
	in.floatObligations++
}

func isIntegral(c float64) bool {
	return !math.IsInf(c, 0) && !math.IsNaN(c) && c == math.Trunc(c) && math.Abs(c) < (1<<floatRangeBits)
}

func (in *Interp) floatAsIntTerm(x FloatV) (*Term, bool) {
	switch x.kind {
	case fInt:
		return x.a, true
	case fConst:
		if isIntegral(x.c) {
			return in.ts.BV(uint64(int64(x.c)), 64), true
		}
	}
	return nil, false
}

func (in *Interp) floatArith(op token.Token, x, y FloatV) Value {
	if x.kind == fConst && y.kind == fConst {
		switch op {
		case token.ADD:
			return FloatV{kind: fConst, c: x.c + y.c}
		case token.SUB:
			return FloatV{kind: fConst, c: x.c - y.c}
		case token.MUL:
			return FloatV{kind: fConst, c: x.c * y.c}
		case token.QUO:
			r := FloatV{kind: fConst, c: x.c / y.c}
			if isIntegral(x.c) && isIntegral(y.c) && y.c != 0 {
				r.qa, r.qb = int64(x.c), int64(y.c)
			}
			return r
		}
	}
	switch op {
	case token.MUL:
		if x.kind == fConst {
			x, y = y, x
		}
		if x.kind == fInt && y.kind == fConst && y.c == math.Trunc(y.c) && math.Abs(y.c) < (1<<floatRangeBits) {
			in.floatRange(x.a)
			return FloatV{kind: fScaled, a: x.a, c: y.c}
		}
	case token.QUO:
		a, oka := in.floatAsIntTerm(x)
		b, okb := in.floatAsIntTerm(y)
		if oka && okb {
			in.floatRange(a)
			in.floatRange(b)
			// b == 0: IEEE gives ±Inf or NaN
			zero := in.ts.BV(0, 64)
			if in.branch(in.ts.Eq(b, zero)) {
				if in.branch(in.ts.Eq(a, zero)) {
					return FloatV{kind: fConst, c: math.NaN()}
				}
				if in.branch(in.ts.SLT(zero, a)) {
					return FloatV{kind: fConst, c: math.Inf(1)}
				}
				return FloatV{kind: fConst, c: math.Inf(-1)}
			}
			if a.IsConst() && b.IsConst() {
				return FloatV{kind: fConst, c: float64(a.SVal()) / float64(b.SVal()), qa: a.SVal(), qb: b.SVal()}
			}
			return FloatV{kind: fQuot, a: a, b: b}
		}
	case token.ADD, token.SUB:
		a, oka := in.floatAsIntTerm(x)
		b, okb := in.floatAsIntTerm(y)
		if oka && okb {
			in.floatRange(a)
			in.floatRange(b)
			if op == token.ADD {
				return FloatV{kind: fInt, a: in.ts.Add(a, b)}
			}
			return FloatV{kind: fInt, a: in.ts.Sub(a, b)}
		}
	}
	panic(unsupported{"float arithmetic " + op.String()})
}

// floorDiv / ceilDiv on signed 64-bit terms (b != 0 on the path)
// smallDivisor: when the divisor provably lies in a small positive range and the dividend is provably
// non-negative, division is expanded into a case split over constant divisors (each decided over the
// integers) instead of a symbolic bvsdiv.
func (in *Interp) smallDivisor(a, b *Term, f func(a, k *Term) *Term) (*Term, bool) {
	if b.IsConst() || in.cfg.NoIntMode {
		return nil, false
	}
	bi := in.mineBounds()
	iv := in.interval(bi, b)
	av := in.interval(bi, a)
	ts := in.ts
	if iv.ok && iv.lo < 1 && iv.hi >= 1 && iv.hi <= 64 {
		// the bounds alone do not exclude a non-positive divisor; ask the solver
		if in.decide(ts.SLT(b, ts.BV(1, 64))) == 0 {
			iv.lo = 1
		}
	}
	if !iv.ok || !av.ok || iv.lo < 1 || iv.hi-iv.lo > 32 || av.lo < 0 || !small(av) {
		return nil, false
	}
	res := f(a, ts.BV(uint64(iv.hi), 64))
	for k := iv.hi - 1; k >= iv.lo; k-- {
		kt := ts.BV(uint64(k), 64)
		res = ts.Ite(ts.Eq(b, kt), f(a, kt), res)
	}
	return res, true
}

func (in *Interp) floorDiv(a, b *Term) *Term {
	ts := in.ts
	if r, ok := in.smallDivisor(a, b, func(a, k *Term) *Term { return ts.SDiv(a, k) }); ok {
		return r
	}
	zero := ts.BV(0, 64)
	q := ts.SDiv(a, b)
	r := ts.SRem(a, b)
	adj := ts.And(ts.Not(ts.Eq(r, zero)), ts.Not(ts.Eq(ts.SLT(r, zero), ts.SLT(b, zero))))
	return ts.Ite(adj, ts.Sub(q, ts.BV(1, 64)), q)
}

func (in *Interp) ceilDiv(a, b *Term) *Term {
	ts := in.ts
	if r, ok := in.smallDivisor(a, b, func(a, k *Term) *Term {
		return ts.SDiv(ts.Add(a, ts.Sub(k, ts.BV(1, 64))), k)
	}); ok {
		return r
	}
	zero := ts.BV(0, 64)
	q := ts.SDiv(a, b)
	r := ts.SRem(a, b)
	adj := ts.And(ts.Not(ts.Eq(r, zero)), ts.Eq(ts.SLT(r, zero), ts.SLT(b, zero)))
	return ts.Ite(adj, ts.Add(q, ts.BV(1, 64)), q)
}

func (in *Interp) floatFloorCeil(x FloatV, ceil bool) Value {
	switch x.kind {
	case fConst:
		if ceil {
			return FloatV{kind: fConst, c: math.Ceil(x.c)}
		}
		return FloatV{kind: fConst, c: math.Floor(x.c)}
	case fInt:
		return x
	case fQuot:
		if ceil {
			return FloatV{kind: fInt, a: in.ceilDiv(x.a, x.b)}
		}
		return FloatV{kind: fInt, a: in.floorDiv(x.a, x.b)}
	}
	panic(unsupported{"floor/ceil of float expression"})
}

// floatToInt: Go conversion float -> integer type of width w.
func (in *Interp) floatToInt(x FloatV, w int, signed bool) Value {
	ts := in.ts
	switch x.kind {
	case fConst:
		if math.IsNaN(x.c) || math.IsInf(x.c, 0) || math.Abs(x.c) >= 9.2e18 {
			// amd64: cvttsd2si yields the "integer indefinite" value
			in.floatIndefinite++
			return ts.BV(0x8000000000000000, w)
		}
		if signed {
			return ts.BV(uint64(int64(x.c)), w)
		}
		if x.c < 0 {
			return ts.BV(uint64(int64(x.c)), w)
		}
		return ts.BV(uint64(x.c), w)
	case fInt:
		return ts.Resize(x.a, w, true)
	case fScaled:
		if !signed {
			if in.decide(ts.SLT(x.a, ts.BV(0, 64))) != 0 {
				panic(unsupported{"float lowering: negative float converted to unsigned"})
			}
		}
		return ts.Resize(ts.Mul(x.a, ts.BV(uint64(int64(x.c)), 64)), w, true)
	case fQuot:
		// truncation toward zero
		if r, ok := in.smallDivisor(x.a, x.b, func(a, k *Term) *Term { return ts.SDiv(a, k) }); ok {
			return ts.Resize(r, w, true)
		}
		return ts.Resize(ts.SDiv(x.a, x.b), w, true)
	}
	panic(unsupported{"float to int conversion"})
}

// floatCmp compares two float expressions exactly.
func (in *Interp) floatCmp(op string, x, y FloatV) *Term {
	ts := in.ts
	cmpC := func(a, b float64) bool {
		switch op {
		case "<":
			return a < b
		case "<=":
			return a <= b
		case ">":
			return a > b
		case ">=":
			return a >= b
		case "==":
			return a == b
		}
		panic("bad op")
	}
	if x.kind == fConst && y.kind == fConst {
		return ts.Bool(cmpC(x.c, y.c))
	}
	// infinities / NaN against finite symbolic expressions
	if x.kind == fConst && (math.IsInf(x.c, 0) || math.IsNaN(x.c)) {
		return ts.Bool(cmpC(x.c, 0))
	}
	if y.kind == fConst && (math.IsInf(y.c, 0) || math.IsNaN(y.c)) {
		return ts.Bool(cmpC(0, y.c))
	}
	// represent both as fractions n/d with d > 0 or d < 0 known by sign term
	type frac struct{ n, d *Term }
	toFrac := func(f FloatV) (frac, bool) {
		switch f.kind {
		case fInt:
			return frac{f.a, ts.BV(1, 64)}, true
		case fQuot:
			return frac{f.a, f.b}, true
		case fConst:
			if isIntegral(f.c) {
				return frac{ts.BV(uint64(int64(f.c)), 64), ts.BV(1, 64)}, true
			}
			if f.qb != 0 {
				return frac{ts.BV(uint64(f.qa), 64), ts.BV(uint64(f.qb), 64)}, true
			}
			// a finite double is a dyadic rational m/2^k
			if !math.IsInf(f.c, 0) && !math.IsNaN(f.c) && math.Abs(f.c) < (1<<20) {
				for k := 1; k <= 20; k++ {
					m := f.c * float64(int64(1)<<uint(k))
					if m == math.Trunc(m) {
						return frac{ts.BV(uint64(int64(m)), 64), ts.BV(uint64(int64(1)<<uint(k)), 64)}, true
					}
				}
			}
		case fScaled:
			return frac{ts.Mul(f.a, ts.BV(uint64(int64(f.c)), 64)), ts.BV(1, 64)}, true
		}
		return frac{}, false
	}
	fx, okx := toFrac(x)
	fy, oky := toFrac(y)
	if !okx || !oky {
		panic(unsupported{fmt.Sprintf("float comparison of unsupported expressions: kind %d (c=%v) %s kind %d (c=%v)", x.kind, x.c, op, y.kind, y.c)})
	}
	// x.n/x.d ? y.n/y.d  <=>  x.n*y.d ? y.n*x.d  when x.d*y.d > 0, reversed otherwise
	l := ts.Mul(fx.n, fy.d)
	r := ts.Mul(fy.n, fx.d)
	zero := ts.BV(0, 64)
	pos := ts.Eq(ts.SLT(fx.d, zero), ts.SLT(fy.d, zero))
	var direct, rev *Term
	switch op {
	case "<":
		direct, rev = ts.SLT(l, r), ts.SLT(r, l)
	case "<=":
		direct, rev = ts.SLE(l, r), ts.SLE(r, l)
	case ">":
		direct, rev = ts.SLT(r, l), ts.SLT(l, r)
	case ">=":
		direct, rev = ts.SLE(r, l), ts.SLE(l, r)
	case "==":
		return ts.Eq(l, r)
	}
	return ts.Ite(pos, direct, rev)
}

package sym

import (
	"fmt"
	"go/constant"
	"go/token"
	"go/types"
	"math"
	"os"
	"strings"
	"time"

	"golang.org/x/tools/go/ssa"
)

// control-flow panics used by the executor
type pathEnd struct{ kind string }
type specAbort struct{ why string }
type unsupported struct{ what string }

type choice struct{ val, arity int }

type jentry struct {
	c   *Cell
	old Value
}

type Violation struct {
	Kind      string // "assert" or "panic"
	ID        string
	Msg       string
	Where     string
	Model     map[string]uint64
	KnownID   string // non-empty: inside a known-finding region
	Harness   string
	Args      []int
	InputsOrd []string
	Choices   []int
}

type CoverHit struct {
	ID    string
	Model map[string]uint64
}

type PathStats struct {
	Paths        int
	Infeasible   int
	Steps        int64
	Merges       int
	MergeFails   int
	Forks        int
	Inconclusive map[string]int
	CacheHits    int
	Obligations  int
	Asserts      int
}

type Frame struct {
	fn     *ssa.Function
	env    map[ssa.Value]Value
	block  *ssa.BasicBlock
	prev   *ssa.BasicBlock
	defers []func()
	result Value
	done   bool
	skipPhis bool
}

type Interp struct {
	prog    *ssa.Program
	ts      *TermStore
	solver  *Solver
	cfg     *JobConfig
	globals map[*ssa.Global]*Cell
	sizes   types.Sizes

	initCellSeq int
	initMapSeq  int
	cellSeq     int
	mapSeq      int

	pc       []*Term
	pcHash   []uint64
	known    map[int]bool
	knownLog []int
	trace    []choice
	tracePos int
	journal  []jentry
	spec     int
	steps    int
	depth    int

	inputs    []*Term
	inputSeq  map[string]int
	cache     map[[2]uint64]Verdict
	callLog   map[string]bool
	modelsLog map[string]bool

	kfPanicID     string
	kfPanicRegion *Term
	mapOrder      string
	lockState     map[*Cell]int // ghost state of mutexes: 0 free, 1 write-held, >=2 read-held count+1
	guardOn       bool
	guardCells    map[*Cell]bool
	guardMu       *Cell
	guardMaps     map[*MapObj]bool
	shuffleSwaps  int
	divDefs       map[[3]int][2]*Term
	divSeq        int
	fresh         int
	floatObligations int
	floatIndefinite  int
	guardViolations  int
	samples       []PathSample
	pathSeq       int
	initMode      bool
	mergeBlacklist map[*ssa.BasicBlock]int
	pending       []pendingAssert
	qSites        map[string]int
	model         map[string]uint64
	modelMemo     map[int]uint64
	modelOK       bool
	varBase       int
	choiceLog     []int
	mapRot        int
	pathViolated  bool
	isolver       *Solver
	inStub        map[string]bool
	oneSided      []oneSidedRec
	traced        []Observation
	deadline      time.Time
	aborted       bool
	bounds        *boundsInfo
	intQueries    int
	mapRotK       int
	curSite       string

	Violations []Violation
	Covers     map[string]*CoverHit
	Observes   []Observation
	Stats      PathStats
	pdomCache  map[*ssa.Function]map[*ssa.BasicBlock]*ssa.BasicBlock
	curHarness string
	curArgs    []int
	violSeen   map[string]int
}

var debugQ = os.Getenv("GOSYM_DEBUG_Q") != ""
var debugDecide = os.Getenv("GOSYM_DEBUG_DECIDE") != ""

type oneSidedRec struct {
	t    *Term
	val  bool
	site string
}

type Observation struct {
	Name string
	Term *Term
}

type JobConfig struct {
	NoMerge     bool
	PlainDiv    bool
	MaxSteps    int // per path
	MaxPaths    int
	SpecBudget  int
	MapOrder    string
	MapOrderK   int
	KnownOpen   map[string]bool // known-finding ids that are open
	MaxViolPer  int
	UnwindBound int
	ShuffleSwaps int
	EagerAsserts bool
	SortFrontOnlyAbove int
	Stubs        map[string]string
	JobTimeoutS  int
	AssertPrefix []string
	NoIntMode    bool
	NoModelDecide bool
	SampleEvery  int
	MaxSamples   int
}

func (in *Interp) inconclusive(why string) {
	if in.Stats.Inconclusive == nil {
		in.Stats.Inconclusive = map[string]int{}
	}
	in.Stats.Inconclusive[why]++
}

// ---------------------------------------------------------------------------------------------
// path condition, feasibility, decisions

func (in *Interp) pushPC(t *Term) {
	h := uint64(1469598103934665603)
	if n := len(in.pcHash); n > 0 {
		h = in.pcHash[n-1]
	}
	h = (h ^ uint64(t.ID)) * 1099511628211
	in.pc = append(in.pc, t)
	in.pcHash = append(in.pcHash, h)
	if in.modelOK && !in.evalModel(t) {
		in.modelOK = false
	}
}

func (in *Interp) curHash() uint64 {
	if n := len(in.pcHash); n > 0 {
		return in.pcHash[n-1]
	}
	return 7
}

func (in *Interp) addKnown(t *Term, val bool) {
	if debugDecide && in.spec == 0 {
		in.oneSided = append(in.oneSided, oneSidedRec{t, val, in.curSite})
	}
	if t.Op == OpNot {
		in.addKnown(t.Args[0], !val)
		return
	}
	if _, ok := in.known[t.ID]; ok {
		return
	}
	in.known[t.ID] = val
	in.knownLog = append(in.knownLog, t.ID)
	if val && t.Op == OpAnd {
		in.addKnown(t.Args[0], true)
		in.addKnown(t.Args[1], true)
	}
	if !val && t.Op == OpOr {
		in.addKnown(t.Args[0], false)
		in.addKnown(t.Args[1], false)
	}
}

func (in *Interp) lookupKnown(t *Term) (bool, bool) {
	if t.Op == OpNot {
		v, ok := in.lookupKnown(t.Args[0])
		return !v, ok
	}
	v, ok := in.known[t.ID]
	if ok {
		return v, true
	}
	// structural: And/Or of knowns
	switch t.Op {
	case OpAnd:
		a, oka := in.lookupKnown(t.Args[0])
		b, okb := in.lookupKnown(t.Args[1])
		if (oka && !a) || (okb && !b) {
			return false, true
		}
		if oka && okb {
			return a && b, true
		}
	case OpOr:
		a, oka := in.lookupKnown(t.Args[0])
		b, okb := in.lookupKnown(t.Args[1])
		if (oka && a) || (okb && b) {
			return true, true
		}
		if oka && okb {
			return a || b, true
		}
	}
	return false, false
}

// feasible decides sat(pc ∧ cond) with caching. Unknown counts as feasible and marks the run inconclusive.
func (in *Interp) feasible(cond *Term) bool {
	if cond.IsConst() {
		return cond.C == 1
	}
	key := [2]uint64{in.curHash(), uint64(cond.ID)}
	if v, ok := in.cache[key]; ok {
		in.Stats.CacheHits++
		return v != Unsat
	}
	v, _ := in.pickSolver(cond).Check(in.pc, []*Term{cond}, nil)
	if debugQ {
		in.qSites[in.curSite]++
	}
	if v == Unknown {
		in.inconclusive("solver unknown")
	}
	in.cache[key] = v
	return v != Unsat
}

// evalModel evaluates t under the current witness model (valid for the current pc).
func (in *Interp) evalModel(t *Term) bool {
	return in.ts.Eval(t, in.model, in.modelMemo) == 1
}

// feasibleM is feasible() that additionally refreshes the witness model when it has to ask the solver.
func (in *Interp) feasibleM(cond *Term) bool {
	if cond.IsConst() {
		return cond.C == 1
	}
	key := [2]uint64{in.curHash(), uint64(cond.ID)}
	if v, ok := in.cache[key]; ok {
		in.Stats.CacheHits++
		return v != Unsat
	}
	vars := in.pathVars()
	v, vals := in.pickSolver(cond).Check(in.pc, []*Term{cond}, vars)
	if debugQ {
		in.qSites[in.curSite]++
	}
	if v == Unknown {
		in.inconclusive("solver unknown")
	}
	in.cache[key] = v
	if v == Sat && len(vals) == len(vars) {
		// the model satisfies pc ∧ cond; it is a witness for pc
		m := make(map[string]uint64, len(vars))
		for i, t := range vars {
			m[t.Name] = vals[i]
		}
		in.model = m
		in.modelMemo = map[int]uint64{}
		in.modelOK = true
	}
	return v != Unsat
}

// pathVars: every SMT variable created so far on this path.
func (in *Interp) pathVars() []*Term {
	return in.ts.Vars[in.varBase:]
}

// decide: 1 only true feasible, 0 only false feasible, 2 both.
func (in *Interp) decide(cond *Term) int {
	if cond.IsConst() {
		return int(cond.C)
	}
	if v, ok := in.lookupKnown(cond); ok {
		if v {
			return 1
		}
		return 0
	}
	if in.modelOK && !in.cfg.NoModelDecide {
		// the witness model tells which side is certainly feasible; only the other needs the solver
		if in.evalModel(cond) {
			if !in.feasible(in.ts.Not(cond)) {
				in.addKnown(cond, true)
				return 1
			}
			return 2
		}
		if !in.feasible(cond) {
			in.addKnown(cond, false)
			return 0
		}
		return 2
	}
	if !in.feasibleM(cond) {
		in.addKnown(cond, false)
		return 0
	}
	if !in.feasible(in.ts.Not(cond)) {
		in.addKnown(cond, true)
		return 1
	}
	return 2
}

func (in *Interp) assume(cond *Term) {
	if cond.IsConst() {
		if cond.C == 0 {
			panic(pathEnd{"infeasible"})
		}
		return
	}
	if v, ok := in.lookupKnown(cond); ok {
		if !v {
			panic(pathEnd{"infeasible"})
		}
		return
	}
	in.pushPC(cond)
	in.addKnown(cond, true)
}

// choose picks one of k alternatives according to the DFS trace.
func (in *Interp) choose(k int) int {
	if in.spec > 0 {
		panic(specAbort{"fork inside speculation"})
	}
	if k <= 1 {
		return 0
	}
	if in.tracePos < len(in.trace) {
		c := in.trace[in.tracePos]
		in.tracePos++
		return c.val
	}
	in.trace = append(in.trace, choice{0, k})
	in.tracePos++
	in.Stats.Forks++
	return 0
}

// branch returns the truth value of cond on this path, forking if both are feasible.
func (in *Interp) branch(cond *Term) bool {
	switch in.decide(cond) {
	case 1:
		return true
	case 0:
		return false
	}
	if in.choose(2) == 0 {
		in.assume(cond)
		return true
	}
	in.assume(in.ts.Not(cond))
	return false
}

// concretize forks over the feasible values of an integer term within [lo,hi].
func (in *Interp) concretize(t *Term, lo, hi int, what string) int {
	if t.IsConst() {
		return int(t.SVal())
	}
	n := hi - lo + 1
	if n <= 0 {
		panic(pathEnd{"infeasible"})
	}
	if n > 64 {
		panic(unsupported{"concretize range too large: " + what})
	}
	k := in.choose(n)
	v := lo + k
	c := in.ts.Eq(t, in.ts.BV(uint64(int64(v)), t.W))
	if !in.feasible(c) {
		panic(pathEnd{"infeasible"})
	}
	in.assume(c)
	return v
}

func (in *Interp) getModel(extra ...*Term) map[string]uint64 {
	v, vals := in.pickSolver(extra...).Check(in.pc, extra, in.inputs)
	if v != Sat {
		return nil
	}
	m := map[string]uint64{}
	for i, t := range in.inputs {
		if i < len(vals) {
			m[t.Name] = vals[i]
		}
	}
	return m
}

// ---------------------------------------------------------------------------------------------
// violations

func (in *Interp) where(fr *Frame, instr ssa.Instruction) string {
	if instr == nil {
		return ""
	}
	pos := instr.Pos()
	if pos == token.NoPos && fr != nil {
		return fr.fn.String()
	}
	p := in.prog.Fset.Position(pos)
	return fmt.Sprintf("%s:%d", p.Filename, p.Line)
}

func (in *Interp) recordViolation(kind, id, msg string, bad *Term, kfID string, region *Term) {
	// bad: condition under which the violation happens (nil = unconditionally on this path)
	if bad == nil {
		bad = in.ts.True
	}
	in.pathViolated = true
	report := func(extra *Term, known string) {
		key := kind + ":" + id + ":" + known
		if in.violSeen[key] >= in.cfg.MaxViolPer {
			return
		}
		var ex []*Term
		ex = append(ex, bad)
		if extra != nil {
			ex = append(ex, extra)
		}
		m := in.getModel(ex...)
		if m == nil {
			return
		}
		if debugDecide {
			memo := map[int]uint64{}
			fmt.Fprintf(os.Stderr, "VIOLATION-TRACE %s model=%v choices=%v\n", id, m, in.choiceLog)
			for _, o := range in.traced {
				fmt.Fprintf(os.Stderr, "  TR %s = %d\n", o.Name, int64(in.ts.Eval(o.Term, m, memo)))
			}
			for _, r := range in.oneSided {
				got := in.ts.Eval(r.t, m, memo) == 1
				if got != r.val {
					s := r.t.String()
					if len(s) > 600 {
						s = s[:600]
					}
					fmt.Fprintf(os.Stderr, "DECIDE-MISMATCH for %s: assumed %v at %s but model gives %v: %s\n", id, r.val, r.site, got, s)
					break
				}
			}
		}
		in.violSeen[key]++
		var ord []string
		for _, v := range in.inputs {
			ord = append(ord, v.Name)
		}
		in.Violations = append(in.Violations, Violation{Kind: kind, ID: id, Msg: msg, Model: m, KnownID: known,
			Harness: in.curHarness, Args: in.curArgs, InputsOrd: ord, Choices: append([]int{}, in.choiceLog...)})
	}
	if kfID != "" && region != nil && in.cfg.KnownOpen[kfID] {
		report(region, kfID)
		report(in.ts.Not(region), "")
	} else {
		report(nil, "")
	}
}

// goPanic: the interpreted program panics unconditionally here.
func (in *Interp) goPanic(msg string) {
	if in.spec > 0 {
		panic(specAbort{"panic in speculation"})
	}
	in.recordViolation("panic", "panic", msg, nil, in.kfPanicID, in.kfPanicRegion)
	panic(pathEnd{"panic"})
}

// obligation: `bad` must be infeasible; otherwise the program panics with msg on those values.
func (in *Interp) obligation(bad *Term, msg string) {
	in.Stats.Obligations++
	switch in.decide(bad) {
	case 0:
		return
	case 1:
		in.goPanic(msg)
	}
	if in.spec > 0 {
		panic(specAbort{"feasible panic in speculation"})
	}
	in.recordViolation("panic", "panic", msg, bad, in.kfPanicID, in.kfPanicRegion)
	in.assume(in.ts.Not(bad))
}

// ---------------------------------------------------------------------------------------------
// journal (for speculation)

func (in *Interp) journalCell(c *Cell) {
	if c.id <= in.initCellSeq {
		panic(unsupported{"write to package-level state created by init"})
	}
	if in.guardOn && in.guardCells[c] {
		in.checkGuard("write")
	}
	if in.spec > 0 {
		in.journal = append(in.journal, jentry{c, c.v})
	}
}

func (in *Interp) journalMap(m *MapObj) {
	if m.id <= in.initMapSeq {
		panic(unsupported{"write to package-level map created by init"})
	}
	if in.spec > 0 {
		panic(specAbort{"map mutation in speculation"})
	}
}

// ---------------------------------------------------------------------------------------------
// frames and instruction execution

func (fr *Frame) get(in *Interp, v ssa.Value) Value {
	switch x := v.(type) {
	case *ssa.Const:
		return in.constValue(x)
	case *ssa.Global:
		c, ok := in.globals[x]
		if !ok {
			c = in.newCell(in.zero(x.Type().(*types.Pointer).Elem()))
			in.globals[x] = c
		}
		return Ptr{c: c}
	case *ssa.Function:
		return x
	case *ssa.Builtin:
		return x
	}
	r, ok := fr.env[v]
	if !ok {
		panic(fmt.Sprintf("unset ssa value %s in %s", v.Name(), fr.fn))
	}
	return r
}

func (in *Interp) constValue(c *ssa.Const) Value {
	t := c.Type()
	if c.Value == nil {
		return in.zero(t)
	}
	if w, _, ok := intInfo(t); ok {
		if i, exact := constant.Int64Val(constant.ToInt(c.Value)); exact {
			return in.ts.BV(uint64(i), w)
		}
		u, _ := constant.Uint64Val(constant.ToInt(c.Value))
		return in.ts.BV(u, w)
	}
	switch {
	case isBoolT(t):
		return in.ts.Bool(constant.BoolVal(c.Value))
	case isStringT(t):
		return StrV{s: constant.StringVal(c.Value)}
	case isFloat(t):
		f, _ := constant.Float64Val(c.Value)
		return FloatV{kind: fConst, c: f}
	}
	panic(unsupported{"constant of type " + t.String()})
}

type jobAbort struct{ why string }

func (in *Interp) tick() {
	in.steps++
	in.Stats.Steps++
	if in.Stats.Steps&8191 == 0 && !in.deadline.IsZero() && time.Now().After(in.deadline) {
		panic(jobAbort{"job time limit"})
	}
	if in.steps > in.cfg.MaxSteps {
		if in.spec > 0 {
			panic(specAbort{"budget"})
		}
		panic(unsupported{"step bound hit (unwinding bound)"})
	}
}

func (in *Interp) callFunction(fn *ssa.Function, args []Value, env []Value, site ssa.Instruction) Value {
	name := fn.String()
	if in.callLog != nil {
		in.callLog[name] = true
	}
	if rep, ok := in.cfg.Stubs[name]; ok && !in.inStub[name] {
		// a cut (DESIGN §3.1): the call is replaced by a harness-provided stand-in or by "returns zero values"
		in.modelsLog["stub:"+name+"->"+rep] = true
		if rep == "zero" {
			res := fn.Signature.Results()
			switch res.Len() {
			case 0:
				return nil
			case 1:
				return in.zero(res.At(0).Type())
			}
			return in.zero(res)
		}
		var rf *ssa.Function
		if fn.Pkg != nil {
			rf = fn.Pkg.Func(rep)
		}
		if rf == nil {
			panic(unsupported{"stub function not found: " + rep})
		}
		in.inStub[name] = true
		defer func() { in.inStub[name] = false }()
		return in.callFunction(rf, args, nil, site)
	}
	if m, ok := models[name]; ok {
		in.modelsLog[name] = true
		return m(in, fn, args)
	}
	if fn.Blocks == nil {
		if in.isRepoFn(fn) {
			if h, ok := intrinsics[fn.Name()]; ok {
				return h(in, fn, args)
			}
			if strings.HasPrefix(fn.Name(), "vJSONClone") {
				// what a JSON round trip of the argument yields (tag-driven structural clone)
				return in.jsonRoundTrip(args[0], fn.Signature.Params().At(0).Type(), false, 0)
			}
			if strings.HasPrefix(fn.Name(), "vClone") {
				return in.deepCopy(args[0], map[*Cell]*Cell{}, map[*MapObj]*MapObj{})
			}
			if strings.HasPrefix(fn.Name(), "vSame") {
				return in.deepEqual(args[0], args[1], 0)
			}
		}
		panic(unsupported{"external function without model: " + name})
	}
	if !in.isRepoFn(fn) && !allowedExternal[name] {
		if m, ok := modelByPrefix(name); ok {
			in.modelsLog[name] = true
			return m(in, fn, args)
		}
		panic(unsupported{"function outside the repository without model: " + name})
	}
	in.depth++
	if in.depth > 200 {
		panic(unsupported{"call depth"})
	}
	fr := &Frame{fn: fn, env: make(map[ssa.Value]Value, 32)}
	for i, p := range fn.Params {
		fr.env[p] = args[i]
	}
	for i, fv := range fn.FreeVars {
		fr.env[fv] = env[i]
	}
	fr.block = fn.Blocks[0]
	in.runFrame(fr, nil)
	in.depth--
	return fr.result
}

func (in *Interp) isRepoFn(fn *ssa.Function) bool {
	p := fn.Package()
	if p == nil {
		if fn.Parent() != nil {
			return in.isRepoFn(fn.Parent())
		}
		if o := fn.Origin(); o != nil && o != fn {
			return in.isRepoFn(o)
		}
		// synthetic wrappers (bound methods, thunks): allow
		if fn.Synthetic != "" {
			return true
		}
		return false
	}
	return strings.HasPrefix(p.Pkg.Path(), "github.com/weedbox/pokerface")
}

// runFrame executes fr from fr.block until the function returns, or until control is about to
// enter stopAt (used by speculation).
func (in *Interp) runFrame(fr *Frame, stopAt *ssa.BasicBlock) {
	for {
		if stopAt != nil && fr.block == stopAt {
			return
		}
		b := fr.block
		next := in.runBlock(fr, b, 0)
		if fr.done {
			if stopAt != nil {
				panic(specAbort{"return inside speculation"})
			}
			return
		}
		fr.prev = b
		fr.block = next
	}
}

// runBlock runs the instructions of b starting at index from; returns the successor block.
func (in *Interp) runBlock(fr *Frame, b *ssa.BasicBlock, from int) *ssa.BasicBlock {
	instrs := b.Instrs
	i := from
	if from == 0 && fr.skipPhis {
		fr.skipPhis = false
		for i < len(instrs) {
			if _, ok := instrs[i].(*ssa.Phi); !ok {
				break
			}
			i++
		}
	} else if from == 0 {
		// phis are evaluated in parallel
		var vals []Value
		n := 0
		for n < len(instrs) {
			phi, ok := instrs[n].(*ssa.Phi)
			if !ok {
				break
			}
			idx := -1
			for k, p := range b.Preds {
				if p == fr.prev {
					idx = k
					break
				}
			}
			if idx < 0 {
				panic("phi: predecessor not found")
			}
			vals = append(vals, fr.get(in, phi.Edges[idx]))
			n++
		}
		for k := 0; k < n; k++ {
			fr.env[instrs[k].(*ssa.Phi)] = vals[k]
		}
		i = n
	}
	for ; i < len(instrs); i++ {
		in.tick()
		switch instr := instrs[i].(type) {
		case *ssa.If:
			c := fr.get(in, instr.Cond).(*Term)
			if debugQ || debugDecide {
				in.curSite = fmt.Sprintf("%s#%d", fr.fn.Name(), b.Index)
			}
			switch in.decide(c) {
			case 1:
				return b.Succs[0]
			case 0:
				return b.Succs[1]
			}
			if ok, j := in.tryMerge(fr, b, c); ok {
				if j == nil {
					return nil // merged return
				}
				// continue in the join block after its (already merged) phis
				fr.skipPhis = true
				return j
			}
			if in.choose(2) == 0 {
				in.assume(c)
				return b.Succs[0]
			}
			in.assume(in.ts.Not(c))
			return b.Succs[1]
		case *ssa.Jump:
			return b.Succs[0]
		case *ssa.Return:
			switch len(instr.Results) {
			case 0:
				fr.result = nil
			case 1:
				fr.result = fr.get(in, instr.Results[0])
			default:
				t := make(TupleV, len(instr.Results))
				for k, r := range instr.Results {
					t[k] = fr.get(in, r)
				}
				fr.result = t
			}
			fr.done = true
			return nil
		case *ssa.Panic:
			v := fr.get(in, instr.X)
			in.goPanic("explicit panic: " + in.describe(v) + " at " + in.where(fr, instr))
		case *ssa.RunDefers:
			in.runDefers(fr)
		default:
			in.visit(fr, instr)
		}
	}
	panic("block without terminator")
}

func (in *Interp) runDefers(fr *Frame) {
	for len(fr.defers) > 0 {
		d := fr.defers[len(fr.defers)-1]
		fr.defers = fr.defers[:len(fr.defers)-1]
		d()
	}
}

func (in *Interp) describe(v Value) string {
	switch x := v.(type) {
	case IfaceV:
		if x.t == nil {
			return "nil"
		}
		return in.describe(x.v)
	case StrV:
		if x.sym == nil {
			return x.s
		}
		return "<symbolic string>"
	case *Term:
		return x.String()
	}
	return fmt.Sprintf("%T", v)
}

func (in *Interp) visit(fr *Frame, instr ssa.Instruction) {
	switch x := instr.(type) {
	case *ssa.DebugRef:
	case *ssa.Alloc:
		c := in.newCell(in.zero(x.Type().(*types.Pointer).Elem()))
		fr.env[x] = Ptr{c: c}
	case *ssa.UnOp:
		fr.env[x] = in.unop(fr, x)
	case *ssa.BinOp:
		fr.env[x] = in.binop(x.Op, x.X.Type(), fr.get(in, x.X), fr.get(in, x.Y), x.Y.Type())
	case *ssa.Store:
		in.store(fr.get(in, x.Addr).(Ptr), fr.get(in, x.Val))
	case *ssa.FieldAddr:
		p := fr.get(in, x.X).(Ptr)
		if p.c == nil {
			in.goPanic("nil pointer dereference (field address) at " + in.where(fr, x))
		}
		np := make([]int, len(p.path)+1)
		copy(np, p.path)
		np[len(p.path)] = x.Field
		fr.env[x] = Ptr{p.c, np}
	case *ssa.Field:
		fr.env[x] = fr.get(in, x.X).(StructV)[x.Field]
	case *ssa.IndexAddr:
		fr.env[x] = in.indexAddr(fr, x)
	case *ssa.Index:
		fr.env[x] = in.index(fr, x)
	case *ssa.Lookup:
		fr.env[x] = in.lookup(fr, x)
	case *ssa.MapUpdate:
		m := fr.get(in, x.Map).(MapV)
		if m.m == nil {
			in.goPanic("assignment to entry in nil map")
		}
		in.mapUpdate(m.m, fr.get(in, x.Key), fr.get(in, x.Value))
	case *ssa.MakeMap:
		in.mapSeq++
		fr.env[x] = MapV{&MapObj{id: in.mapSeq}}
	case *ssa.MakeSlice:
		l := in.concretize(fr.get(in, x.Len).(*Term), 0, 4096, "make len")
		c := in.concretize(fr.get(in, x.Cap).(*Term), 0, 4096, "make cap")
		et := x.Type().Underlying().(*types.Slice).Elem()
		arr := make(ArrayV, c)
		for k := range arr {
			arr[k] = in.zero(et)
		}
		fr.env[x] = SliceV{c: in.newCell(arr), off: 0, len: l, cap: c}
	case *ssa.MakeClosure:
		fn := x.Fn.(*ssa.Function)
		env := make([]Value, len(x.Bindings))
		for k, b := range x.Bindings {
			env[k] = fr.get(in, b)
		}
		fr.env[x] = ClosureV{fn, env}
	case *ssa.MakeInterface:
		fr.env[x] = IfaceV{t: x.X.Type(), v: fr.get(in, x.X)}
	case *ssa.ChangeInterface:
		fr.env[x] = fr.get(in, x.X)
	case *ssa.ChangeType:
		fr.env[x] = fr.get(in, x.X)
	case *ssa.Convert:
		fr.env[x] = in.convert(x.X.Type(), x.Type(), fr.get(in, x.X))
	case *ssa.Slice:
		fr.env[x] = in.slice(fr, x)
	case *ssa.Extract:
		fr.env[x] = fr.get(in, x.Tuple).(TupleV)[x.Index]
	case *ssa.TypeAssert:
		fr.env[x] = in.typeAssert(fr, x)
	case *ssa.Call:
		fr.env[x] = in.doCall(fr, &x.Call, x)
	case *ssa.Defer:
		fn, args, env := in.prepareCall(fr, &x.Call)
		call := x
		fr.defers = append(fr.defers, func() { in.invoke(fr, fn, args, env, call) })
	case *ssa.Range:
		fr.env[x] = in.rangeStart(fr, x)
	case *ssa.Next:
		fr.env[x] = in.rangeNext(fr, x)
	case *ssa.Go:
		panic(unsupported{"go statement"})
	case *ssa.Send, *ssa.Select:
		panic(unsupported{"channel operation"})
	default:
		panic(unsupported{fmt.Sprintf("instruction %T", instr)})
	}
}

func (in *Interp) unop(fr *Frame, x *ssa.UnOp) Value {
	v := fr.get(in, x.X)
	switch x.Op {
	case token.MUL:
		p := v.(Ptr)
		if p.c == nil {
			in.goPanic("nil pointer dereference at " + in.where(fr, x))
		}
		if in.guardOn && in.guardCells[p.c] {
			in.checkGuard("read")
		}
		return in.load(p)
	case token.NOT:
		return in.ts.Not(v.(*Term))
	case token.SUB:
		switch t := v.(type) {
		case *Term:
			return in.ts.Neg(t)
		case FloatV:
			if t.kind == fConst {
				return FloatV{kind: fConst, c: -t.c}
			}
		}
	case token.XOR:
		return in.ts.BNot(v.(*Term))
	case token.ARROW:
		panic(unsupported{"channel receive"})
	}
	panic(unsupported{"unop " + x.Op.String()})
}

func (in *Interp) binop(op token.Token, xt types.Type, a, b Value, yt types.Type) Value {
	ts := in.ts
	switch op {
	case token.EQL:
		return in.valueEq(a, b)
	case token.NEQ:
		return ts.Not(in.valueEq(a, b))
	}
	switch x := a.(type) {
	case *Term:
		y := b.(*Term)
		if x.W == 0 {
			switch op {
			case token.AND, token.LAND:
				return ts.And(x, y)
			case token.OR, token.LOR:
				return ts.Or(x, y)
			case token.XOR:
				return ts.Not(ts.Eq(x, y))
			}
			panic(unsupported{"bool binop " + op.String()})
		}
		_, signed, _ := intInfo(xt)
		switch op {
		case token.ADD:
			return ts.Add(x, y)
		case token.SUB:
			return ts.Sub(x, y)
		case token.MUL:
			return ts.Mul(x, y)
		case token.QUO:
			in.obligation(ts.Eq(y, ts.BV(0, y.W)), "integer divide by zero")
			return in.divrem(x, y, signed, true)
		case token.REM:
			in.obligation(ts.Eq(y, ts.BV(0, y.W)), "integer divide by zero")
			return in.divrem(x, y, signed, false)
		case token.AND:
			return ts.BAnd(x, y)
		case token.OR:
			return ts.BOr(x, y)
		case token.XOR:
			return ts.BXor(x, y)
		case token.AND_NOT:
			return ts.BAnd(x, ts.BNot(y))
		case token.SHL, token.SHR:
			_, ysigned, _ := intInfo(yt)
			if ysigned {
				in.obligation(ts.SLT(y, ts.BV(0, y.W)), "negative shift amount")
			}
			// bring shift count to x's width, saturating
			var cnt *Term
			if y.W > x.W {
				big := ts.Not(ts.ULT(y, ts.BV(uint64(x.W), y.W)))
				cnt = ts.Ite(big, ts.BV(uint64(x.W), x.W), ts.Extract(y, x.W-1, 0))
			} else {
				cnt = ts.ZExt(y, x.W)
			}
			if op == token.SHL {
				return ts.Shl(x, cnt)
			}
			if signed {
				return ts.AShr(x, cnt)
			}
			return ts.LShr(x, cnt)
		case token.LSS:
			if signed {
				return ts.SLT(x, y)
			}
			return ts.ULT(x, y)
		case token.LEQ:
			if signed {
				return ts.SLE(x, y)
			}
			return ts.ULE(x, y)
		case token.GTR:
			if signed {
				return ts.SLT(y, x)
			}
			return ts.ULT(y, x)
		case token.GEQ:
			if signed {
				return ts.SLE(y, x)
			}
			return ts.ULE(y, x)
		}
	case StrV:
		y := b.(StrV)
		switch op {
		case token.ADD:
			if x.sym == nil && y.sym == nil {
				return StrV{s: x.s + y.s}
			}
			return in.mkStr(append(append([]*Term{}, in.strBytes(x)...), in.strBytes(y)...))
		case token.LSS, token.LEQ, token.GTR, token.GEQ:
			if x.sym == nil && y.sym == nil {
				switch op {
				case token.LSS:
					return ts.Bool(x.s < y.s)
				case token.LEQ:
					return ts.Bool(x.s <= y.s)
				case token.GTR:
					return ts.Bool(x.s > y.s)
				case token.GEQ:
					return ts.Bool(x.s >= y.s)
				}
			}
		}
	case FloatV:
		y := b.(FloatV)
		switch op {
		case token.LSS, token.LEQ, token.GTR, token.GEQ:
			return in.floatCmp(op.String(), x, y)
		default:
			return in.floatArith(op, x, y)
		}
	}
	panic(unsupported{fmt.Sprintf("binop %s on %T", op, a)})
}

// divrem: division/remainder. Constant positive divisors use defining equations with a fresh
// quotient and remainder (DESIGN §2.4); everything else uses bvsdiv/bvudiv directly.
func (in *Interp) divrem(x, y *Term, signed, wantQuot bool) *Term {
	ts := in.ts
	plain := func() *Term {
		if signed {
			if wantQuot {
				return ts.SDiv(x, y)
			}
			return ts.SRem(x, y)
		}
		if wantQuot {
			return ts.UDiv(x, y)
		}
		return ts.URem(x, y)
	}
	if x.IsConst() || !y.IsConst() || in.spec > 0 || in.cfg.PlainDiv || x.W != 64 {
		return plain()
	}
	if signed && y.SVal() <= 1 || !signed && y.C <= 1 {
		return plain()
	}
	key := [3]int{x.ID, y.ID, 0}
	if signed {
		key[2] = 1
	}
	qr, ok := in.divDefs[key]
	if !ok {
		in.divSeq++
		q := ts.Var(fmt.Sprintf("div!q%d", in.divSeq), 64)
		r := ts.Var(fmt.Sprintf("div!r%d", in.divSeq), 64)
		zero := ts.BV(0, 64)
		var def *Term
		// bounds of x known from the path condition tighten the quotient's range (and make the
		// definition overflow-free, hence eligible for integer mode)
		xi := ival{ok: false}
		if !in.cfg.NoIntMode {
			xi = in.interval(in.mineBounds(), x)
		}
		if signed {
			d := y.SVal()
			qlo := ts.BV(uint64(math.MinInt64/d), 64)
			qhi := ts.BV(uint64(math.MaxInt64/d), 64)
			if xi.ok && small(xi) {
				qlo = ts.BV(uint64(xi.lo/d), 64)
				qhi = ts.BV(uint64(xi.hi/d), 64)
			}
			var rng *Term
			switch {
			case xi.ok && xi.lo >= 0:
				rng = ts.And(ts.SLE(zero, r), ts.SLT(r, y))
			case xi.ok && xi.hi <= 0:
				rng = ts.And(ts.SLT(ts.Neg(y), r), ts.SLE(r, zero))
			default:
				neg := ts.SLT(x, zero)
				rng = ts.And(ts.And(ts.SLT(ts.Neg(y), r), ts.SLT(r, y)), ts.Ite(neg, ts.SLE(r, zero), ts.SLE(zero, r)))
			}
			def = ts.AndAll(ts.SLE(qlo, q), ts.SLE(q, qhi), rng, ts.Eq(x, ts.Add(ts.Mul(q, y), r)))
		} else {
			qhi := ts.BV(^uint64(0)/y.C, 64)
			if xi.ok && small(xi) && xi.lo >= 0 {
				qhi = ts.BV(uint64(xi.hi)/y.C, 64)
			}
			def = ts.AndAll(ts.ULE(q, qhi), ts.ULT(r, y), ts.Eq(x, ts.Add(ts.Mul(q, y), r)))
		}
		in.pushPC(def)
		qr = [2]*Term{q, r}
		in.divDefs[key] = qr
	}
	if wantQuot {
		return qr[0]
	}
	return qr[1]
}

func (in *Interp) convert(from, to types.Type, v Value) Value {
	ts := in.ts
	if tw, _, ok := intInfo(to); ok {
		switch x := v.(type) {
		case *Term:
			_, fsigned, _ := intInfo(from)
			return ts.Resize(x, tw, fsigned)
		case FloatV:
			_, tsigned, _ := intInfo(to)
			return in.floatToInt(x, tw, tsigned)
		}
	}
	if isFloat(to) {
		switch x := v.(type) {
		case *Term:
			_, fsigned, _ := intInfo(from)
			if x.IsConst() {
				if fsigned {
					return FloatV{kind: fConst, c: float64(x.SVal())}
				}
				return FloatV{kind: fConst, c: float64(x.C)}
			}
			return FloatV{kind: fInt, a: ts.Resize(x, 64, fsigned)}
		case FloatV:
			return x
		}
	}
	if isStringT(to) {
		switch x := v.(type) {
		case StrV:
			return x
		case SliceV: // []byte -> string
			b := make([]*Term, x.len)
			if x.c != nil {
				arr := x.c.v.(ArrayV)
				for i := 0; i < x.len; i++ {
					b[i] = arr[x.off+i].(*Term)
				}
			}
			return in.mkStr(b)
		case *Term:
			if x.IsConst() {
				return StrV{s: string(rune(x.SVal()))}
			}
		}
	}
	if sl, ok := to.Underlying().(*types.Slice); ok {
		if s, ok := v.(StrV); ok {
			if b, ok := sl.Elem().Underlying().(*types.Basic); ok && b.Kind() == types.Uint8 {
				bs := in.strBytes(s)
				arr := make(ArrayV, len(bs))
				for i := range bs {
					arr[i] = bs[i]
				}
				return SliceV{c: in.newCell(arr), len: len(bs), cap: len(bs)}
			}
		}
	}
	if _, ok := to.Underlying().(*types.Pointer); ok {
		return v
	}
	if b, ok := to.Underlying().(*types.Basic); ok && b.Kind() == types.UnsafePointer {
		return v
	}
	panic(unsupported{fmt.Sprintf("convert %s -> %s", from, to)})
}

func (in *Interp) indexAddr(fr *Frame, x *ssa.IndexAddr) Value {
	base := fr.get(in, x.X)
	idx := fr.get(in, x.Index).(*Term)
	_, isigned, _ := intInfo(x.Index.Type())
	switch b := base.(type) {
	case SliceV:
		i := in.boundedIndex(idx, isigned, b.len, in.where(fr, x))
		return Ptr{b.c, []int{b.off + i}}
	case Ptr: // pointer to array
		if b.c == nil {
			in.goPanic("nil pointer dereference (index) at " + in.where(fr, x))
		}
		n := int(x.X.Type().Underlying().(*types.Pointer).Elem().Underlying().(*types.Array).Len())
		i := in.boundedIndex(idx, isigned, n, in.where(fr, x))
		np := make([]int, len(b.path)+1)
		copy(np, b.path)
		np[len(b.path)] = i
		return Ptr{b.c, np}
	}
	panic(unsupported{fmt.Sprintf("IndexAddr on %T", base)})
}

// boundedIndex checks 0 <= idx < n (panic obligation) and returns a concrete index (forking if needed).
func (in *Interp) boundedIndex(idx *Term, signed bool, n int, where string) int {
	ts := in.ts
	idx64 := ts.Resize(idx, 64, signed)
	if idx64.IsConst() {
		v := idx64.SVal()
		if v < 0 || v >= int64(n) {
			in.goPanic(fmt.Sprintf("index out of range [%d] with length %d at %s", v, n, where))
		}
		return int(v)
	}
	bad := ts.Not(ts.ULT(idx64, ts.BV(uint64(n), 64)))
	in.obligation(bad, fmt.Sprintf("index out of range (symbolic index, length %d) at %s", n, where))
	return in.concretize(idx64, 0, n-1, "index")
}

func (in *Interp) index(fr *Frame, x *ssa.Index) Value {
	base := fr.get(in, x.X)
	idx := fr.get(in, x.Index).(*Term)
	_, isigned, _ := intInfo(x.Index.Type())
	switch b := base.(type) {
	case ArrayV:
		i := in.boundedIndex(idx, isigned, len(b), in.where(fr, x))
		return b[i]
	case StrV:
		bs := in.strBytes(b)
		i := in.boundedIndex(idx, isigned, len(bs), in.where(fr, x))
		return bs[i]
	}
	panic(unsupported{fmt.Sprintf("Index on %T", base)})
}

func (in *Interp) slice(fr *Frame, x *ssa.Slice) Value {
	base := fr.get(in, x.X)
	where := in.where(fr, x)
	getIdx := func(v ssa.Value, def int, hi int, what string) int {
		if v == nil {
			return def
		}
		t := fr.get(in, v).(*Term)
		_, sg, _ := intInfo(v.Type())
		t = in.ts.Resize(t, 64, sg)
		if t.IsConst() {
			return int(t.SVal())
		}
		// symbolic bound: obligation that it is in range, then concretise
		bad := in.ts.Not(in.ts.ULE(t, in.ts.BV(uint64(hi), 64)))
		in.obligation(bad, fmt.Sprintf("slice bounds out of range (symbolic %s, cap %d) at %s", what, hi, where))
		return in.concretize(t, 0, hi, "slice bound")
	}
	switch b := base.(type) {
	case StrV:
		n := b.Len()
		lo := getIdx(x.Low, 0, n, "low")
		hi := getIdx(x.High, n, n, "high")
		if lo < 0 || hi > n || lo > hi {
			in.goPanic(fmt.Sprintf("slice bounds out of range [%d:%d] with length %d at %s", lo, hi, n, where))
		}
		if b.sym == nil {
			return StrV{s: b.s[lo:hi]}
		}
		return in.mkStr(b.sym[lo:hi])
	case SliceV:
		lo := getIdx(x.Low, 0, b.cap, "low")
		hi := getIdx(x.High, b.len, b.cap, "high")
		mx := getIdx(x.Max, b.cap, b.cap, "max")
		if lo < 0 || hi > b.cap || lo > hi || mx > b.cap || hi > mx {
			in.goPanic(fmt.Sprintf("slice bounds out of range [%d:%d:%d] with capacity %d at %s", lo, hi, mx, b.cap, where))
		}
		if b.c == nil {
			return SliceV{}
		}
		return SliceV{c: b.c, off: b.off + lo, len: hi - lo, cap: mx - lo}
	case Ptr: // *array
		if b.c == nil {
			in.goPanic("nil pointer dereference (slice of array) at " + where)
		}
		arr := in.load(b).(ArrayV)
		n := len(arr)
		lo := getIdx(x.Low, 0, n, "low")
		hi := getIdx(x.High, n, n, "high")
		mx := getIdx(x.Max, n, n, "max")
		if lo < 0 || hi > n || lo > hi || mx > n || hi > mx {
			in.goPanic(fmt.Sprintf("slice bounds out of range [%d:%d] with length %d at %s", lo, hi, n, where))
		}
		if len(b.path) != 0 {
			panic(unsupported{"slice of nested array"})
		}
		return SliceV{c: b.c, off: lo, len: hi - lo, cap: mx - lo}
	}
	panic(unsupported{fmt.Sprintf("Slice on %T", base)})
}

func (in *Interp) typeAssert(fr *Frame, x *ssa.TypeAssert) Value {
	v := fr.get(in, x.X).(IfaceV)
	ok := false
	if v.t != nil {
		if it, isI := x.AssertedType.Underlying().(*types.Interface); isI {
			ok = types.Implements(v.t, it)
		} else {
			ok = types.Identical(v.t, x.AssertedType)
		}
	}
	var res Value
	if ok {
		if _, isI := x.AssertedType.Underlying().(*types.Interface); isI {
			res = v
		} else {
			res = v.v
		}
	} else {
		if !x.CommaOk {
			in.goPanic("interface conversion failed at " + in.where(fr, x))
		}
		res = in.zero(x.AssertedType)
	}
	if x.CommaOk {
		return TupleV{res, in.ts.Bool(ok)}
	}
	return res
}

// ---------------------------------------------------------------------------------------------
// calls

func (in *Interp) prepareCall(fr *Frame, c *ssa.CallCommon) (fn Value, args []Value, env []Value) {
	if c.IsInvoke() {
		recv := fr.get(in, c.Value).(IfaceV)
		if recv.t == nil {
			in.goPanic("nil pointer dereference (method call on nil interface " + c.Method.Name() + ") at " + in.prog.Fset.Position(c.Pos()).String())
		}
		m := in.prog.LookupMethod(recv.t, c.Method.Pkg(), c.Method.Name())
		if m == nil {
			panic(unsupported{"method not found: " + c.Method.Name()})
		}
		args = append(args, recv.v)
		fn = m
	} else {
		fn = fr.get(in, c.Value)
	}
	for _, a := range c.Args {
		args = append(args, fr.get(in, a))
	}
	if cl, ok := fn.(ClosureV); ok {
		return cl.fn, args, cl.env
	}
	return fn, args, nil
}

func (in *Interp) doCall(fr *Frame, c *ssa.CallCommon, site ssa.Instruction) Value {
	fn, args, env := in.prepareCall(fr, c)
	return in.invoke(fr, fn, args, env, site)
}

func (in *Interp) invoke(fr *Frame, fn Value, args []Value, env []Value, site ssa.Instruction) Value {
	switch f := fn.(type) {
	case ClosureV:
		return in.callFunction(f.fn, args, f.env, site)
	case *ssa.Function:
		if f == nil {
			in.goPanic("call of nil function")
		}
		return in.callFunction(f, args, env, site)
	case *ssa.Builtin:
		return in.builtin(fr, f, args, site)
	case nil:
		in.goPanic("call of nil function value at " + in.where(fr, site))
	}
	panic(unsupported{fmt.Sprintf("call of %T", fn)})
}

func (in *Interp) builtin(fr *Frame, b *ssa.Builtin, args []Value, site ssa.Instruction) Value {
	ts := in.ts
	switch b.Name() {
	case "len":
		switch x := args[0].(type) {
		case SliceV:
			return ts.BV(uint64(x.len), 64)
		case StrV:
			return ts.BV(uint64(x.Len()), 64)
		case MapV:
			if x.m == nil {
				return ts.BV(0, 64)
			}
			return ts.BV(uint64(len(x.m.keys)), 64)
		case ArrayV:
			return ts.BV(uint64(len(x)), 64)
		case Ptr:
			return ts.BV(uint64(len(in.load(x).(ArrayV))), 64)
		}
	case "cap":
		switch x := args[0].(type) {
		case SliceV:
			return ts.BV(uint64(x.cap), 64)
		case ArrayV:
			return ts.BV(uint64(len(x)), 64)
		}
	case "append":
		return in.appendSlice(args[0].(SliceV), args[1], site)
	case "copy":
		dst := args[0].(SliceV)
		var src []Value
		switch s := args[1].(type) {
		case SliceV:
			if s.c != nil {
				src = append(src, s.c.v.(ArrayV)[s.off:s.off+s.len]...)
			}
		case StrV:
			for _, t := range in.strBytes(s) {
				src = append(src, t)
			}
		}
		n := len(src)
		if dst.len < n {
			n = dst.len
		}
		if n > 0 {
			in.journalCell(dst.c)
			arr := append(ArrayV{}, dst.c.v.(ArrayV)...)
			copy(arr[dst.off:dst.off+n], src[:n])
			dst.c.v = arr
		}
		return ts.BV(uint64(n), 64)
	case "delete":
		m := args[0].(MapV)
		if m.m != nil {
			in.mapDelete(m.m, args[1])
		}
		return nil
	case "print", "println":
		return nil
	case "ssa:wrapnilchk":
		p := args[0].(Ptr)
		if p.c == nil {
			in.goPanic("value method called using nil pointer")
		}
		return p
	case "min", "max":
		x, y := args[0].(*Term), args[1].(*Term)
		_, signed, _ := intInfo(site.(ssa.Value).Type())
		var lt *Term
		if signed {
			lt = ts.SLT(x, y)
		} else {
			lt = ts.ULT(x, y)
		}
		if b.Name() == "min" {
			return ts.Ite(lt, x, y)
		}
		return ts.Ite(lt, y, x)
	}
	panic(unsupported{"builtin " + b.Name()})
}

// Go's size classes (runtime/sizeclasses.go), used to reproduce append's capacity growth.
var sizeClasses = []int{0, 8, 16, 24, 32, 48, 64, 80, 96, 112, 128, 144, 160, 176, 192, 208, 224, 240, 256, 288, 320, 352, 384, 416, 448, 480, 512, 576, 640, 704, 768, 896, 1024, 1152, 1280, 1408, 1536, 1792, 2048, 2304, 2688, 3072, 3200, 3456, 4096, 4864, 5376, 6144, 6528, 6784, 6912, 8192, 9472, 9728, 10240, 10880, 12288, 13568, 14336, 16384, 18432, 19072, 20480, 21760, 24576, 27264, 28672, 32768}

func roundupsize(n int) int {
	for _, c := range sizeClasses {
		if c >= n {
			return c
		}
	}
	return (n + 8191) &^ 8191
}

func growCap(oldCap, newLen, elemSize int) int {
	newcap := oldCap
	doublecap := newcap + newcap
	if newLen > doublecap {
		newcap = newLen
	} else {
		const threshold = 256
		if oldCap < threshold {
			newcap = doublecap
		} else {
			for newcap < newLen {
				newcap += (newcap + 3*threshold) >> 2
			}
		}
	}
	if elemSize == 0 {
		return newcap
	}
	mem := roundupsize(newcap * elemSize)
	return mem / elemSize
}

func (in *Interp) appendSlice(s SliceV, more Value, site ssa.Instruction) Value {
	var add []Value
	switch m := more.(type) {
	case SliceV:
		if m.c != nil {
			add = append(add, m.c.v.(ArrayV)[m.off:m.off+m.len]...)
		}
	case StrV:
		for _, t := range in.strBytes(m) {
			add = append(add, t)
		}
	default:
		panic(unsupported{fmt.Sprintf("append of %T", more)})
	}
	if len(add) == 0 {
		return s
	}
	newLen := s.len + len(add)
	if s.c != nil && newLen <= s.cap {
		in.journalCell(s.c)
		arr := append(ArrayV{}, s.c.v.(ArrayV)...)
		copy(arr[s.off+s.len:], add)
		s.c.v = arr
		return SliceV{c: s.c, off: s.off, len: newLen, cap: s.cap}
	}
	et := site.(ssa.Value).Type().Underlying().(*types.Slice).Elem()
	esz := int(in.sizes.Sizeof(et))
	nc := growCap(s.cap, newLen, esz)
	arr := make(ArrayV, nc)
	if s.c != nil {
		copy(arr, s.c.v.(ArrayV)[s.off:s.off+s.len])
	}
	copy(arr[s.len:], add)
	z := in.zero(et)
	for k := newLen; k < nc; k++ {
		arr[k] = z
	}
	return SliceV{c: in.newCell(arr), off: 0, len: newLen, cap: nc}
}

// ---------------------------------------------------------------------------------------------
// maps

func (in *Interp) keyEq(a, b Value) *Term {
	return in.valueEq(a, b)
}

func (in *Interp) lookup(fr *Frame, x *ssa.Lookup) Value {
	base := fr.get(in, x.X)
	if s, ok := base.(StrV); ok {
		idx := fr.get(in, x.Index).(*Term)
		bs := in.strBytes(s)
		_, sg, _ := intInfo(x.Index.Type())
		i := in.boundedIndex(idx, sg, len(bs), in.where(fr, x))
		return bs[i]
	}
	m := base.(MapV)
	if in.guardOn && m.m != nil && in.guardMaps[m.m] {
		in.checkGuard("read")
	}
	key := fr.get(in, x.Index)
	vt := x.X.Type().Underlying().(*types.Map).Elem()
	zero := in.zero(vt)
	found := in.ts.False
	var res Value = zero
	if m.m != nil {
		// concrete fast path & ite-chain
		conds := make([]*Term, len(m.m.keys))
		allConst := true
		for i, k := range m.m.keys {
			conds[i] = in.keyEq(k, key)
			if !conds[i].IsConst() {
				allConst = false
			}
		}
		if allConst {
			for i, c := range conds {
				if c.IsTrue() {
					res = m.m.vals[i]
					found = in.ts.True
					break
				}
			}
		} else {
			// try ite-merge
			okMerge := true
			var r Value = zero
			f := in.ts.False
			for i := len(conds) - 1; i >= 0; i-- {
				if conds[i].IsFalse() {
					continue
				}
				nv, ok := in.mergeValue(conds[i], m.m.vals[i], r)
				if !ok {
					okMerge = false
					break
				}
				r = nv
				f = in.ts.Or(conds[i], f)
			}
			if okMerge {
				res, found = r, f
			} else {
				// decide the candidates one after the other (forks only where both outcomes are feasible)
				res, found = zero, in.ts.False
				for i, c := range conds {
					if c.IsFalse() {
						continue
					}
					if in.branch(c) {
						res, found = m.m.vals[i], in.ts.True
						break
					}
				}
			}
		}
	}
	if x.CommaOk {
		return TupleV{res, found}
	}
	return res
}

// findKey locates key in m, forking when equality with stored keys is symbolic. Returns -1 if absent.
func (in *Interp) findKey(m *MapObj, key Value) int {
	var cand []int
	conds := make([]*Term, len(m.keys))
	for i, k := range m.keys {
		conds[i] = in.keyEq(k, key)
		if conds[i].IsTrue() {
			return i
		}
		if !conds[i].IsFalse() {
			cand = append(cand, i)
		}
	}
	if len(cand) == 0 {
		return -1
	}
	// decide each candidate in turn (branching)
	for _, i := range cand {
		if in.branch(conds[i]) {
			return i
		}
	}
	return -1
}

func (in *Interp) mapUpdate(m *MapObj, key, val Value) {
	if in.guardOn && in.guardMaps[m] {
		in.checkGuard("write")
	}
	in.journalMap(m)
	i := in.findKey(m, key)
	if i >= 0 {
		m.vals = append(append([]Value{}, m.vals[:i]...), append([]Value{val}, m.vals[i+1:]...)...)
		return
	}
	m.keys = append(append([]Value{}, m.keys...), key)
	m.vals = append(append([]Value{}, m.vals...), val)
}

func (in *Interp) mapDelete(m *MapObj, key Value) {
	in.journalMap(m)
	i := in.findKey(m, key)
	if i < 0 {
		return
	}
	m.keys = append(append([]Value{}, m.keys[:i]...), m.keys[i+1:]...)
	m.vals = append(append([]Value{}, m.vals[:i]...), m.vals[i+1:]...)
}

func (in *Interp) rangeStart(fr *Frame, x *ssa.Range) Value {
	switch b := fr.get(in, x.X).(type) {
	case MapV:
		it := &mapIter{pos: in.newCell(0)}
		if in.guardOn && b.m != nil && in.guardMaps[b.m] {
			in.checkGuard("read")
		}
		if b.m != nil {
			n := len(b.m.keys)
			order := in.mapIterOrder(n)
			for _, i := range order {
				it.keys = append(it.keys, b.m.keys[i])
				it.vals = append(it.vals, b.m.vals[i])
			}
		}
		return it
	}
	panic(unsupported{"range over " + x.X.Type().String()})
}

// mapIterOrder picks the iteration order of a map of n entries according to the job's policy.
func (in *Interp) mapIterOrder(n int) []int {
	id := make([]int, n)
	for i := range id {
		id[i] = i
	}
	if n <= 1 {
		return id
	}
	switch in.mapOrder {
	case "rotations":
		// one (rotation, direction) pair per path, applied to every map range on that path
		if in.mapRot < 0 {
			k := in.cfg.MapOrderK
			if k <= 0 {
				k = 3
			}
			in.mapRot = in.choose(2 * k)
			in.mapRotK = k
		}
		rot, rev := in.mapRot%in.mapRotK, in.mapRot >= in.mapRotK
		r := make([]int, n)
		for i := range r {
			if !rev {
				r[i] = (i + rot) % n
			} else {
				r[i] = ((n-1-i)+rot+n) % n
			}
		}
		return r
	case "all":
		if n > 5 {
			panic(unsupported{"map order policy 'all' beyond 5 entries"})
		}
		perms := permutations(n)
		return perms[in.choose(len(perms))]
	}
	return id
}

func permutations(n int) [][]int {
	var res [][]int
	var rec func(cur []int, used []bool)
	rec = func(cur []int, used []bool) {
		if len(cur) == n {
			res = append(res, append([]int{}, cur...))
			return
		}
		for i := 0; i < n; i++ {
			if !used[i] {
				used[i] = true
				rec(append(cur, i), used)
				used[i] = false
			}
		}
	}
	rec(nil, make([]bool, n))
	return res
}

func (in *Interp) rangeNext(fr *Frame, x *ssa.Next) Value {
	it, ok := fr.get(in, x.Iter).(*mapIter)
	if !ok {
		panic(unsupported{"next on non-map iterator"})
	}
	mt := x.Iter.(*ssa.Range).X.Type().Underlying().(*types.Map)
	pos := it.pos.v.(int)
	if pos >= len(it.keys) {
		return TupleV{in.ts.False, in.zero(mt.Key()), in.zero(mt.Elem())}
	}
	k, v := it.keys[pos], it.vals[pos]
	if in.spec > 0 {
		in.journal = append(in.journal, jentry{it.pos, it.pos.v})
	}
	it.pos.v = pos + 1
	return TupleV{in.ts.True, k, v}
}

var _ = math.Floor

package sym

import (
	"fmt"
	"go/types"
	"reflect"
	"sort"
	"strings"

	"golang.org/x/tools/go/ssa"
)

// encoding/json model (DESIGN §2.5): Marshal followed by Unmarshal into a fresh value of the same
// type is a tag-driven structural clone computed from the *current* source's struct tags: exported
// fields only, `json:"-"` dropped, `omitempty` drops empty values (so nil and empty slices unify to
// nil), map entries come back in key order, unexported fields are zero. The reflection-based
// implementation itself is not executed.

type JSONV struct {
	typ     types.Type
	payload Value // already round-tripped copy
}

func init() {
	models["encoding/json.Marshal"] = func(in *Interp, fn *ssa.Function, a []Value) Value {
		iv := a[0].(IfaceV)
		if iv.t == nil {
			panic(unsupported{"json.Marshal(nil)"})
		}
		return TupleV{JSONV{typ: iv.t, payload: in.jsonRoundTrip(iv.v, iv.t, false, 0)}, IfaceV{}}
	}
	models["encoding/json.Unmarshal"] = func(in *Interp, fn *ssa.Function, a []Value) Value {
		j, ok := a[0].(JSONV)
		if !ok {
			panic(unsupported{"json.Unmarshal of bytes that did not come from json.Marshal"})
		}
		dst := a[1].(IfaceV)
		dp, ok := dst.v.(Ptr)
		if !ok || dp.c == nil {
			panic(unsupported{"json.Unmarshal into non-pointer"})
		}
		dt := dst.t.Underlying().(*types.Pointer).Elem()
		// the marshalled value was a pointer to T (or T); unwrap to T
		src := j.payload
		st := j.typ
		if pt, isPtr := st.Underlying().(*types.Pointer); isPtr {
			sp := src.(Ptr)
			if sp.c == nil {
				return IfaceV{}
			}
			src = in.load(sp)
			st = pt.Elem()
		}
		if !types.Identical(st, dt) {
			panic(unsupported{fmt.Sprintf("json round trip between different types %s -> %s", st, dt)})
		}
		// a second copy so that the blob can be unmarshalled more than once
		in.store(dp, in.deepCopy(src, map[*Cell]*Cell{}, map[*MapObj]*MapObj{}))
		return IfaceV{}
	}
}

func jsonTag(tag string) (name string, omitempty bool, skip bool) {
	st := reflect.StructTag(tag)
	v, ok := st.Lookup("json")
	if !ok {
		return "", false, false
	}
	if v == "-" {
		return "", false, true
	}
	parts := strings.Split(v, ",")
	for _, p := range parts[1:] {
		if p == "omitempty" {
			omitempty = true
		}
	}
	return parts[0], omitempty, false
}

// jsonEmpty: is v the "empty value" in the sense of omitempty? Returns (known, empty).
func (in *Interp) jsonEmpty(v Value) (*Term, bool) {
	ts := in.ts
	switch x := v.(type) {
	case *Term:
		if x.W == 0 {
			return ts.Not(x), true
		}
		return ts.Eq(x, ts.BV(0, x.W)), true
	case StrV:
		return ts.Bool(x.Len() == 0), true
	case SliceV:
		return ts.Bool(x.len == 0), true
	case MapV:
		return ts.Bool(x.m == nil || len(x.m.keys) == 0), true
	case Ptr:
		return ts.Bool(x.c == nil), true
	case IfaceV:
		return ts.Bool(x.t == nil), true
	}
	return nil, false
}

func (in *Interp) jsonRoundTrip(v Value, t types.Type, omitempty bool, depth int) Value {
	if depth > 40 {
		panic(unsupported{"json model: structure too deep or cyclic"})
	}
	if omitempty {
		if e, ok := in.jsonEmpty(v); ok {
			if e.IsTrue() {
				return in.zero(t)
			}
			if !e.IsFalse() {
				// symbolic emptiness (e.g. an int64 with omitempty): zero and non-zero round-trip to the same value
				if _, isTerm := v.(*Term); !isTerm {
					panic(unsupported{"json model: symbolic emptiness of a non-scalar"})
				}
			}
		}
	}
	switch tt := t.Underlying().(type) {
	case *types.Basic:
		return v
	case *types.Pointer:
		p := v.(Ptr)
		if p.c == nil {
			return p
		}
		return Ptr{c: in.newCell(in.jsonRoundTrip(in.load(p), tt.Elem(), false, depth+1))}
	case *types.Struct:
		sv := v.(StructV)
		out := make(StructV, len(sv))
		for i := range sv {
			f := tt.Field(i)
			_, omit, skip := jsonTag(tt.Tag(i))
			if !f.Exported() || skip {
				out[i] = in.zero(f.Type())
				continue
			}
			if f.Embedded() {
				panic(unsupported{"json model: embedded field " + f.Name()})
			}
			out[i] = in.jsonRoundTrip(sv[i], f.Type(), omit, depth+1)
		}
		return out
	case *types.Slice:
		s := v.(SliceV)
		if s.c == nil {
			return SliceV{}
		}
		arr := make(ArrayV, s.len)
		src := s.c.v.(ArrayV)
		for i := 0; i < s.len; i++ {
			arr[i] = in.jsonRoundTrip(src[s.off+i], tt.Elem(), false, depth+1)
		}
		return SliceV{c: in.newCell(arr), off: 0, len: s.len, cap: s.len}
	case *types.Array:
		a := v.(ArrayV)
		out := make(ArrayV, len(a))
		for i := range a {
			out[i] = in.jsonRoundTrip(a[i], tt.Elem(), false, depth+1)
		}
		return out
	case *types.Map:
		m := v.(MapV)
		if m.m == nil {
			return MapV{}
		}
		in.mapSeq++
		nm := &MapObj{id: in.mapSeq}
		// encoding/json writes object keys in sorted (string) order
		type kv struct {
			ks   string
			k, v Value
		}
		var kvs []kv
		for i, k := range m.m.keys {
			var ks string
			switch kk := k.(type) {
			case *Term:
				if !kk.IsConst() {
					panic(unsupported{"json model: symbolic map key"})
				}
				ks = fmt.Sprintf("%d", kk.SVal())
			case StrV:
				if kk.sym != nil {
					panic(unsupported{"json model: symbolic map key"})
				}
				ks = kk.s
			default:
				panic(unsupported{"json model: map key type"})
			}
			kvs = append(kvs, kv{ks, k, in.jsonRoundTrip(m.m.vals[i], tt.Elem(), false, depth+1)})
		}
		sort.Slice(kvs, func(i, j int) bool { return kvs[i].ks < kvs[j].ks })
		for _, e := range kvs {
			nm.keys = append(nm.keys, e.k)
			nm.vals = append(nm.vals, e.v)
		}
		return MapV{nm}
	case *types.Interface:
		iv := v.(IfaceV)
		if iv.t == nil {
			return iv
		}
		panic(unsupported{"json model: non-nil interface value"})
	}
	panic(unsupported{"json model: type " + t.String()})
}

package sym

import (
	"fmt"
	"go/types"
	"math"
	"os"
	"sort"
	"strings"

	"golang.org/x/tools/go/ssa"
)

type modelFn func(in *Interp, fn *ssa.Function, args []Value) Value

var models map[string]modelFn
var intrinsics map[string]modelFn

// functions outside the repository whose real bodies are interpreted
var allowedExternal = map[string]bool{
	"errors.New":                    true,
	"(*errors.errorString).Error":   true,
}

func modelByPrefix(name string) (modelFn, bool) {
	if strings.HasSuffix(name, ".init") || strings.Contains(name, ".init#") {
		return func(in *Interp, fn *ssa.Function, args []Value) Value { return nil }, true
	}
	return nil, false
}

func (in *Interp) freshVar(prefix string, w int) *Term {
	in.fresh++
	return in.ts.Var(fmt.Sprintf("%s!%d", prefix, in.fresh), w)
}

func (in *Interp) inputVar(name string, w int) *Term {
	k := in.inputSeq[name]
	in.inputSeq[name] = k + 1
	full := name
	if k > 0 {
		full = fmt.Sprintf("%s#%d", name, k)
	}
	t := in.ts.Var(full, w)
	in.inputs = append(in.inputs, t)
	if w > 0 && w < 64 {
		// trivially true over bit-vectors; makes the variable's range explicit for integer-mode queries
		half := uint64(1) << uint(w-1)
		ts := in.ts
		in.pushPC(ts.And(ts.SLE(ts.BV(-half, w), t), ts.SLE(t, ts.BV(half-1, w))))
	}
	return t
}

func concreteStr(v Value) string {
	s, ok := v.(StrV)
	if !ok || s.sym != nil {
		panic(unsupported{"intrinsic needs a concrete string argument"})
	}
	return s.s
}

func concreteInt(v Value) int {
	t := v.(*Term)
	if !t.IsConst() {
		panic(unsupported{"intrinsic needs a concrete int argument"})
	}
	return int(t.SVal())
}

func errTuple(in *Interp, n Value) Value { return TupleV{n, IfaceV{}} }

func init() {
	intrinsics = map[string]modelFn{
		"vInt64":  func(in *Interp, fn *ssa.Function, a []Value) Value { return in.inputVar(concreteStr(a[0]), 64) },
		"vInt":    func(in *Interp, fn *ssa.Function, a []Value) Value { return in.inputVar(concreteStr(a[0]), 64) },
		"vUint64": func(in *Interp, fn *ssa.Function, a []Value) Value { return in.inputVar(concreteStr(a[0]), 64) },
		"vByte":   func(in *Interp, fn *ssa.Function, a []Value) Value { return in.inputVar(concreteStr(a[0]), 8) },
		"vBool":   func(in *Interp, fn *ssa.Function, a []Value) Value { return in.inputVar(concreteStr(a[0]), 0) },
		"vSymString": func(in *Interp, fn *ssa.Function, a []Value) Value {
			name := concreteStr(a[0])
			n := concreteInt(a[1])
			b := make([]*Term, n)
			for i := range b {
				b[i] = in.inputVar(fmt.Sprintf("%s.%d", name, i), 8)
			}
			return in.mkStr(b)
		},
		"vChoice": func(in *Interp, fn *ssa.Function, a []Value) Value {
			k := concreteInt(a[1])
			c := in.choose(k)
			in.choiceLog = append(in.choiceLog, c)
			return in.ts.BV(uint64(c), 64)
		},
		"vAssume": func(in *Interp, fn *ssa.Function, a []Value) Value {
			c := a[0].(*Term)
			if in.spec > 0 {
				panic(specAbort{"assume in speculation"})
			}
			if !c.IsTrue() {
				in.flushAsserts()
			}
			switch in.decide(c) {
			case 0:
				panic(pathEnd{"infeasible"})
			case 2:
				in.assume(c)
			}
			return nil
		},
		"vAssert": func(in *Interp, fn *ssa.Function, a []Value) Value {
			in.doAssert(a[0].(*Term), concreteStr(a[1]), "", nil)
			return nil
		},
		"vAssertK": func(in *Interp, fn *ssa.Function, a []Value) Value {
			in.doAssert(a[0].(*Term), concreteStr(a[1]), concreteStr(a[2]), a[3].(*Term))
			return nil
		},
		"vKnownPanic": func(in *Interp, fn *ssa.Function, a []Value) Value {
			in.kfPanicID = concreteStr(a[0])
			in.kfPanicRegion = a[1].(*Term)
			return nil
		},
		"vCover": func(in *Interp, fn *ssa.Function, a []Value) Value {
			if in.spec > 0 {
				panic(specAbort{"cover in speculation"})
			}
			id := concreteStr(a[0])
			if _, ok := in.Covers[id]; !ok {
				m := in.getModel()
				if m != nil {
					in.Covers[id] = &CoverHit{ID: id, Model: m}
				}
			}
			return nil
		},
		"vObserve": func(in *Interp, fn *ssa.Function, a []Value) Value {
			if in.spec > 0 {
				panic(specAbort{"observe in speculation"})
			}
			in.Observes = append(in.Observes, Observation{concreteStr(a[0]), a[1].(*Term)})
			return nil
		},
		"vObserveB": func(in *Interp, fn *ssa.Function, a []Value) Value {
			if in.spec > 0 {
				panic(specAbort{"observe in speculation"})
			}
			in.Observes = append(in.Observes, Observation{concreteStr(a[0]), a[1].(*Term)})
			return nil
		},
		"vMapOrder": func(in *Interp, fn *ssa.Function, a []Value) Value {
			in.mapOrder = concreteStr(a[0])
			return nil
		},
		"vIte": func(in *Interp, fn *ssa.Function, a []Value) Value {
			return in.ts.Ite(a[0].(*Term), a[1].(*Term), a[2].(*Term))
		},
		"vAnd": func(in *Interp, fn *ssa.Function, a []Value) Value {
			return in.ts.And(a[0].(*Term), a[1].(*Term))
		},
		"vOr": func(in *Interp, fn *ssa.Function, a []Value) Value {
			return in.ts.Or(a[0].(*Term), a[1].(*Term))
		},
		"vImplies": func(in *Interp, fn *ssa.Function, a []Value) Value {
			return in.ts.Implies(a[0].(*Term), a[1].(*Term))
		},
		"vFork": func(in *Interp, fn *ssa.Function, a []Value) Value {
			return in.ts.Bool(in.branch(a[0].(*Term)))
		},
		"vConcrete": func(in *Interp, fn *ssa.Function, a []Value) Value {
			t := a[0].(*Term)
			lo, hi := concreteInt(a[1]), concreteInt(a[2])
			in.obligationAssume(in.ts.And(in.ts.SLE(in.ts.BV(uint64(int64(lo)), 64), t), in.ts.SLE(t, in.ts.BV(uint64(int64(hi)), 64))))
			return in.ts.BV(uint64(int64(in.concretize(t, lo, hi, "vConcrete"))), 64)
		},
		"vGuardOn": func(in *Interp, fn *ssa.Function, a []Value) Value {
			// a[0]: pointer to the struct whose embedded mutex guards everything reachable from it
			v := a[0]
			if iv, ok := v.(IfaceV); ok {
				v = iv.v
			}
			p := v.(Ptr)
			in.guardCells = map[*Cell]bool{}
			in.guardMaps = map[*MapObj]bool{}
			in.collectGuarded(Ptr{c: p.c}, 0)
			in.guardMu = p.c
			in.guardOn = true
			return nil
		},
		"vGuardOff": func(in *Interp, fn *ssa.Function, a []Value) Value {
			in.guardOn = false
			return nil
		},
		"vTrace": func(in *Interp, fn *ssa.Function, a []Value) Value {
			if os.Getenv("GOSYM_TRACE") != "" {
				fmt.Fprintf(os.Stderr, "TRACE %s = %s\n", concreteStr(a[0]), in.describe(a[1]))
			}
			if debugDecide {
				if t, ok := a[1].(*Term); ok {
					in.traced = append(in.traced, Observation{concreteStr(a[0]), t})
				}
			}
			return nil
		},
		"vNamedInt": func(in *Interp, fn *ssa.Function, a []Value) Value {
			// the same name yields the same variable within a path (used to model an uninterpreted function)
			name := "named:" + concreteStr(a[0])
			t := in.ts.Var(name, 64)
			seen := false
			for _, v := range in.inputs {
				if v == t {
					seen = true
					break
				}
			}
			if !seen {
				in.inputs = append(in.inputs, t)
			}
			return t
		},
		"vWants": func(in *Interp, fn *ssa.Function, a []Value) Value {
			// is a family of assertions (by id prefix) part of the property being checked?
			want := concreteStr(a[0])
			if len(in.cfg.AssertPrefix) == 0 {
				return in.ts.True
			}
			for _, p := range in.cfg.AssertPrefix {
				if strings.HasPrefix(want, p) || strings.HasPrefix(p, want) {
					return in.ts.True
				}
			}
			return in.ts.False
		},
		"vSymbolic": func(in *Interp, fn *ssa.Function, a []Value) Value { return in.ts.True },
	}

	models = map[string]modelFn{
		"time.Now": func(in *Interp, fn *ssa.Function, a []Value) Value { return OpaqueV{"time.Time"} },
		"(time.Time).UnixNano": func(in *Interp, fn *ssa.Function, a []Value) Value {
			return in.freshVar("time", 64)
		},
		"(time.Time).Unix": func(in *Interp, fn *ssa.Function, a []Value) Value {
			return in.freshVar("time", 64)
		},
		"math/rand.Seed": func(in *Interp, fn *ssa.Function, a []Value) Value { return nil },
		"math/rand.Shuffle": func(in *Interp, fn *ssa.Function, a []Value) Value {
			n := a[0].(*Term)
			ts := in.ts
			for k := 0; k < in.cfg.ShuffleSwaps; k++ {
				i := in.freshVar("shuffle.i", 64)
				j := in.freshVar("shuffle.j", 64)
				in.pushPC(ts.And(ts.ULT(i, n), ts.ULT(j, n)))
				in.invoke(nil, a[1], []Value{i, j}, nil, nil)
			}
			return nil
		},
		"math/rand.Intn": func(in *Interp, fn *ssa.Function, a []Value) Value {
			n := a[0].(*Term)
			ts := in.ts
			in.obligation(ts.SLE(n, ts.BV(0, 64)), "invalid argument to Intn")
			r := in.freshVar("rand.Intn", 64)
			in.pushPC(ts.ULT(r, n))
			return r
		},
		"sort.Slice": modelSortSlice,
		"sort.SliceStable": func(in *Interp, fn *ssa.Function, a []Value) Value {
			return modelSortSliceWith(in, a, true)
		},
		"fmt.Sprintf": func(in *Interp, fn *ssa.Function, a []Value) Value {
			format := concreteStr(a[0])
			var args []Value
			if s, ok := a[1].(SliceV); ok && s.c != nil {
				args = s.c.v.(ArrayV)[s.off : s.off+s.len]
			}
			var out []*Term
			ai := 0
			for i := 0; i < len(format); i++ {
				c := format[i]
				if c != '%' {
					out = append(out, in.ts.BV(uint64(c), 8))
					continue
				}
				i++
				if i >= len(format) {
					panic(unsupported{"fmt.Sprintf: bad format"})
				}
				switch format[i] {
				case '%':
					out = append(out, in.ts.BV('%', 8))
				case 's', 'v', 'd':
					if ai >= len(args) {
						panic(unsupported{"fmt.Sprintf: missing argument"})
					}
					arg := args[ai].(IfaceV)
					ai++
					switch v := arg.v.(type) {
					case StrV:
						out = append(out, in.strBytes(v)...)
					case *Term:
						if !v.IsConst() || v.W == 0 {
							panic(unsupported{"fmt.Sprintf: symbolic number"})
						}
						_, signed, _ := intInfo(arg.t)
						var s string
						if signed {
							s = fmt.Sprintf("%d", v.SVal())
						} else {
							s = fmt.Sprintf("%d", v.C)
						}
						for k := 0; k < len(s); k++ {
							out = append(out, in.ts.BV(uint64(s[k]), 8))
						}
					default:
						panic(unsupported{fmt.Sprintf("fmt.Sprintf: argument %T", arg.v)})
					}
				default:
					panic(unsupported{"fmt.Sprintf: verb " + string(format[i])})
				}
			}
			return in.mkStr(out)
		},
		"fmt.Println": func(in *Interp, fn *ssa.Function, a []Value) Value { return errTuple(in, in.ts.BV(0, 64)) },
		"fmt.Printf":  func(in *Interp, fn *ssa.Function, a []Value) Value { return errTuple(in, in.ts.BV(0, 64)) },
		"fmt.Print":   func(in *Interp, fn *ssa.Function, a []Value) Value { return errTuple(in, in.ts.BV(0, 64)) },
		"(*sync.Mutex).Lock":      func(in *Interp, fn *ssa.Function, a []Value) Value { in.lockOp(a[0], "Lock"); return nil },
		"(*sync.Mutex).Unlock":    func(in *Interp, fn *ssa.Function, a []Value) Value { in.lockOp(a[0], "Unlock"); return nil },
		"(*sync.RWMutex).Lock":    func(in *Interp, fn *ssa.Function, a []Value) Value { in.lockOp(a[0], "Lock"); return nil },
		"(*sync.RWMutex).Unlock":  func(in *Interp, fn *ssa.Function, a []Value) Value { in.lockOp(a[0], "Unlock"); return nil },
		"(*sync.RWMutex).RLock":   func(in *Interp, fn *ssa.Function, a []Value) Value { in.lockOp(a[0], "RLock"); return nil },
		"(*sync.RWMutex).RUnlock": func(in *Interp, fn *ssa.Function, a []Value) Value { in.lockOp(a[0], "RUnlock"); return nil },
		"github.com/google/uuid.New": func(in *Interp, fn *ssa.Function, a []Value) Value { return OpaqueV{"uuid"} },
		"(github.com/google/uuid.UUID).String": func(in *Interp, fn *ssa.Function, a []Value) Value {
			return StrV{s: "00000000-0000-0000-0000-000000000000"}
		},
		"math.Pow": func(in *Interp, fn *ssa.Function, a []Value) Value {
			x, y := a[0].(FloatV), a[1].(FloatV)
			if x.kind == fConst && y.kind == fConst {
				return FloatV{kind: fConst, c: math.Pow(x.c, y.c)}
			}
			panic(unsupported{"math.Pow on symbolic arguments"})
		},
		"math.Max": func(in *Interp, fn *ssa.Function, a []Value) Value {
			x, y := a[0].(FloatV), a[1].(FloatV)
			if x.kind == fConst && y.kind == fConst {
				return FloatV{kind: fConst, c: math.Max(x.c, y.c)}
			}
			if in.branch(in.floatCmp(">=", x, y)) {
				return x
			}
			return y
		},
		"math.Min": func(in *Interp, fn *ssa.Function, a []Value) Value {
			x, y := a[0].(FloatV), a[1].(FloatV)
			if x.kind == fConst && y.kind == fConst {
				return FloatV{kind: fConst, c: math.Min(x.c, y.c)}
			}
			if in.branch(in.floatCmp("<=", x, y)) {
				return x
			}
			return y
		},
		"math.Abs": func(in *Interp, fn *ssa.Function, a []Value) Value {
			x := a[0].(FloatV)
			switch x.kind {
			case fConst:
				return FloatV{kind: fConst, c: math.Abs(x.c)}
			case fInt:
				return FloatV{kind: fInt, a: in.ts.Ite(in.ts.SLT(x.a, in.ts.BV(0, 64)), in.ts.Neg(x.a), x.a)}
			}
			panic(unsupported{"math.Abs of float expression"})
		},
		"math.Trunc": func(in *Interp, fn *ssa.Function, a []Value) Value {
			x := a[0].(FloatV)
			switch x.kind {
			case fConst:
				return FloatV{kind: fConst, c: math.Trunc(x.c)}
			case fInt:
				return x
			case fQuot:
				return FloatV{kind: fInt, a: in.ts.SDiv(x.a, x.b)}
			}
			panic(unsupported{"math.Trunc of float expression"})
		},
		"math.Ceil":  func(in *Interp, fn *ssa.Function, a []Value) Value { return in.floatFloorCeil(a[0].(FloatV), true) },
		"math.Floor": func(in *Interp, fn *ssa.Function, a []Value) Value { return in.floatFloorCeil(a[0].(FloatV), false) },
	}
}

// lockOp maintains the ghost state of a mutex (used for the lock-coverage obligation of C18).
func (in *Interp) lockOp(recv Value, op string) {
	p, ok := recv.(Ptr)
	if !ok || p.c == nil {
		in.goPanic("nil mutex")
	}
	key := p.c
	// a mutex embedded in a struct: distinguish by path through a derived key
	st := in.lockState[key]
	switch op {
	case "Lock":
		if st != 0 {
			in.goPanic("self-deadlock: Lock on a held mutex")
		}
		in.journalLock(key)
		in.lockState[key] = 1
	case "Unlock":
		if st != 1 {
			in.goPanic("sync: unlock of unlocked mutex")
		}
		in.journalLock(key)
		in.lockState[key] = 0
	case "RLock":
		if st == 1 {
			in.goPanic("self-deadlock: RLock on a write-held mutex")
		}
		in.journalLock(key)
		if st == 0 {
			in.lockState[key] = 2
		} else {
			in.lockState[key] = st + 1
		}
	case "RUnlock":
		if st < 2 {
			in.goPanic("sync: RUnlock of unlocked RWMutex")
		}
		in.journalLock(key)
		if st == 2 {
			in.lockState[key] = 0
		} else {
			in.lockState[key] = st - 1
		}
	}
}

func (in *Interp) journalLock(c *Cell) {
	if in.spec > 0 {
		panic(specAbort{"lock operation in speculation"})
	}
}

// checkGuard: an access to guarded state happens now; the guarding mutex must be write-held.
func (in *Interp) checkGuard(kind string) {
	if in.guardMu == nil {
		return
	}
	if in.lockState[in.guardMu] != 1 && !(kind == "read" && in.lockState[in.guardMu] >= 2) {
		in.guardViolations++
		if in.spec > 0 {
			panic(specAbort{"guard violation in speculation"})
		}
		in.recordViolation("ghost", "C18.lock-coverage", "unlocked "+kind+" of state guarded by the mutex", nil, "", nil)
	}
}

func (in *Interp) doAssert(c *Term, id string, kfID string, region *Term) {
	if in.spec > 0 {
		panic(specAbort{"assert in speculation"})
	}
	if len(in.cfg.AssertPrefix) > 0 {
		mine := false
		for _, p := range in.cfg.AssertPrefix {
			if strings.HasPrefix(id, p) {
				mine = true
				break
			}
		}
		if !mine {
			return
		}
	}
	in.Stats.Asserts++
	if kfID != "" && region != nil && in.cfg.KnownOpen[kfID] {
		// known finding: violations inside its region are reported as such (once) and otherwise
		// tolerated; anything outside the region is checked as usual
		if in.violSeen["known:"+kfID+":"+id] == 0 {
			inRegion := in.ts.And(in.ts.Not(c), region)
			if in.feasible(inRegion) {
				in.recordKnown(id, kfID, inRegion)
			}
		}
		c = in.ts.Or(c, region)
	}
	bad := in.ts.Not(c)
	if !in.cfg.EagerAsserts {
		if c.IsConst() && c.C == 1 {
			return
		}
		if v, ok := in.lookupKnown(c); ok && v {
			return
		}
		if !(c.IsConst() && c.C == 0) {
			in.pending = append(in.pending, pendingAssert{c, id, "", nil})
			return
		}
	}
	switch in.decide(bad) {
	case 0:
		return
	case 1:
		in.recordViolation("assert", id, "assertion "+id+" fails on every input of this path", nil, "", nil)
		panic(pathEnd{"assert"})
	}
	in.recordViolation("assert", id, "assertion "+id+" fails", bad, "", nil)
	in.assume(c)
}

// recordKnown records one witness of a known finding (inside its region).
func (in *Interp) recordKnown(id, kfID string, cond *Term) {
	m := in.getModel(cond)
	if m == nil {
		return
	}
	in.violSeen["known:"+kfID+":"+id]++
	in.Violations = append(in.Violations, Violation{Kind: "assert", ID: id, Msg: "known finding " + kfID, Model: m, KnownID: kfID,
		Harness: in.curHarness, Args: in.curArgs, Choices: append([]int{}, in.choiceLog...)})
}

// sort.Slice: the engine runs the toolchain's real sort.Slice (the same pdqsort the native build
// uses; it is deterministic) on a shadow slice of the elements and calls the interpreted `less`
// closure for every comparison; symbolic comparison results fork the path. The interpreter's backing
// array is brought up to date before every comparison so that `less` sees the current arrangement.
func modelSortSlice(in *Interp, fn *ssa.Function, a []Value) Value {
	return modelSortSliceWith(in, a, false)
}

// modelSortSliceWith: sort.Slice, or sort.SliceStable (the toolchain's insertion/symmerge sort) when stable.
func modelSortSliceWith(in *Interp, a []Value, stable bool) Value {
	iv := a[0].(IfaceV)
	s, ok := iv.v.(SliceV)
	if !ok {
		panic(unsupported{"sort.Slice on non-slice"})
	}
	less := a[1]
	n := s.len
	if n < 2 {
		return nil
	}
	if !stable && in.cfg.SortFrontOnlyAbove > 0 && n > in.cfg.SortFrontOnlyAbove {
		return modelSortSliceFront(in, s, less)
	}
	elems := make([]Value, n)
	copy(elems, s.c.v.(ArrayV)[s.off:s.off+n])
	sync := func() {
		cur := s.c.v.(ArrayV)
		same := true
		for i := 0; i < n; i++ {
			if !identical(cur[s.off+i], elems[i]) {
				same = false
				break
			}
		}
		if same {
			return
		}
		in.journalCell(s.c)
		arr := append(ArrayV{}, cur...)
		copy(arr[s.off:s.off+n], elems)
		s.c.v = arr
	}
	cmp := func(i, j int) bool {
		sync()
		r := in.invoke(nil, less, []Value{in.ts.BV(uint64(i), 64), in.ts.BV(uint64(j), 64)}, nil, nil).(*Term)
		return in.branch(r)
	}
	if stable {
		sort.SliceStable(elems, cmp)
	} else {
		sort.Slice(elems, cmp)
	}
	sync()
	return nil
}

// identical: cheap identity test used to avoid needless writes (pointers and terms by identity).
func identical(a, b Value) bool {
	switch x := a.(type) {
	case Ptr:
		y, ok := b.(Ptr)
		return ok && ptrEq(x, y)
	case *Term:
		y, ok := b.(*Term)
		return ok && x == y
	}
	return false
}

// ---------------------------------------------------------------------------------------------
// deep copy / deep equality intrinsics (vClone*, vSame*)

func (in *Interp) deepCopy(v Value, memo map[*Cell]*Cell, mmemo map[*MapObj]*MapObj) Value {
	switch x := v.(type) {
	case Ptr:
		if x.c == nil {
			return x
		}
		nc, ok := memo[x.c]
		if !ok {
			nc = in.newCell(nil)
			memo[x.c] = nc
			nc.v = in.deepCopy(x.c.v, memo, mmemo)
		}
		return Ptr{nc, x.path}
	case SliceV:
		if x.c == nil {
			return x
		}
		nc, ok := memo[x.c]
		if !ok {
			nc = in.newCell(nil)
			memo[x.c] = nc
			nc.v = in.deepCopy(x.c.v, memo, mmemo)
		}
		return SliceV{nc, x.off, x.len, x.cap}
	case StructV:
		r := make(StructV, len(x))
		for i := range x {
			r[i] = in.deepCopy(x[i], memo, mmemo)
		}
		return r
	case ArrayV:
		r := make(ArrayV, len(x))
		for i := range x {
			r[i] = in.deepCopy(x[i], memo, mmemo)
		}
		return r
	case IfaceV:
		if x.t == nil {
			return x
		}
		return IfaceV{x.t, in.deepCopy(x.v, memo, mmemo)}
	case MapV:
		if x.m == nil {
			return x
		}
		nm, ok := mmemo[x.m]
		if !ok {
			in.mapSeq++
			nm = &MapObj{id: in.mapSeq}
			mmemo[x.m] = nm
			for i := range x.m.keys {
				nm.keys = append(nm.keys, in.deepCopy(x.m.keys[i], memo, mmemo))
				nm.vals = append(nm.vals, in.deepCopy(x.m.vals[i], memo, mmemo))
			}
		}
		return MapV{nm}
	}
	return v
}

// deepEqual follows reflect.DeepEqual's rules (nil vs empty slices/maps differ).
func (in *Interp) deepEqual(a, b Value, depth int) *Term {
	ts := in.ts
	if depth > 64 {
		panic(unsupported{"deepEqual: cyclic or too deep"})
	}
	switch x := a.(type) {
	case Ptr:
		y := b.(Ptr)
		if x.c == nil || y.c == nil {
			return ts.Bool(x.c == nil && y.c == nil)
		}
		if ptrEq(x, y) {
			return ts.True
		}
		return in.deepEqual(in.load(x), in.load(y), depth+1)
	case SliceV:
		y := b.(SliceV)
		if x.c == nil || y.c == nil {
			return ts.Bool(x.c == nil && y.c == nil)
		}
		if x.len != y.len {
			return ts.False
		}
		r := ts.True
		xa, ya := x.c.v.(ArrayV), y.c.v.(ArrayV)
		for i := 0; i < x.len; i++ {
			r = ts.And(r, in.deepEqual(xa[x.off+i], ya[y.off+i], depth+1))
			if r.IsFalse() {
				return r
			}
		}
		return r
	case StructV:
		y := b.(StructV)
		r := ts.True
		for i := range x {
			r = ts.And(r, in.deepEqual(x[i], y[i], depth+1))
			if r.IsFalse() {
				return r
			}
		}
		return r
	case ArrayV:
		y := b.(ArrayV)
		r := ts.True
		for i := range x {
			r = ts.And(r, in.deepEqual(x[i], y[i], depth+1))
		}
		return r
	case IfaceV:
		y := b.(IfaceV)
		if x.t == nil || y.t == nil {
			return ts.Bool(x.t == nil && y.t == nil)
		}
		if !types.Identical(x.t, y.t) {
			return ts.False
		}
		return in.deepEqual(x.v, y.v, depth+1)
	case MapV:
		y := b.(MapV)
		if x.m == nil || y.m == nil {
			return ts.Bool(x.m == nil && y.m == nil)
		}
		if len(x.m.keys) != len(y.m.keys) {
			return ts.False
		}
		r := ts.True
		for i, k := range x.m.keys {
			found := false
			for j, k2 := range y.m.keys {
				e := in.keyEq(k, k2)
				if e.IsTrue() {
					r = ts.And(r, in.deepEqual(x.m.vals[i], y.m.vals[j], depth+1))
					found = true
					break
				}
				if !e.IsFalse() {
					panic(unsupported{"deepEqual: symbolic map keys"})
				}
			}
			if !found {
				return ts.False
			}
		}
		return r
	}
	return in.valueEq(a, b)
}

type pendingAssert struct {
	c      *Term
	id     string
	kfID   string
	region *Term
}

// flushAsserts decides all deferred assertions under the current path condition: one query for
// "some assertion can fail", individual queries only if that is satisfiable.
func (in *Interp) flushAsserts() {
	if len(in.pending) == 0 {
		return
	}
	pend := in.pending
	in.pending = nil
	in.curSite = "flushAsserts"
	anyBad := in.ts.False
	for _, p := range pend {
		anyBad = in.ts.Or(anyBad, in.ts.Not(p.c))
	}
	if !in.feasible(anyBad) {
		return
	}
	for _, p := range pend {
		bad := in.ts.Not(p.c)
		if in.feasible(bad) {
			in.recordViolation("assert", p.id, "assertion "+p.id+" fails", bad, p.kfID, p.region)
		}
	}
}

// obligationAssume: harness-side range restriction used by vConcrete (an assumption, flushed like vAssume).
func (in *Interp) obligationAssume(c *Term) {
	if in.spec > 0 {
		panic(specAbort{"assume in speculation"})
	}
	in.flushAsserts()
	switch in.decide(c) {
	case 0:
		panic(pathEnd{"infeasible"})
	case 2:
		in.assume(c)
	}
}

// collectGuarded gathers the cells and maps reachable from v (the state a mutex is meant to guard).
func (in *Interp) collectGuarded(v Value, depth int) {
	if depth > 32 {
		return
	}
	switch x := v.(type) {
	case Ptr:
		if x.c == nil || in.guardCells[x.c] {
			return
		}
		in.guardCells[x.c] = true
		in.collectGuarded(x.c.v, depth+1)
	case SliceV:
		if x.c == nil || in.guardCells[x.c] {
			return
		}
		in.guardCells[x.c] = true
		in.collectGuarded(x.c.v, depth+1)
	case StructV:
		for _, f := range x {
			in.collectGuarded(f, depth+1)
		}
	case ArrayV:
		for _, f := range x {
			in.collectGuarded(f, depth+1)
		}
	case MapV:
		if x.m == nil || in.guardMaps[x.m] {
			return
		}
		in.guardMaps[x.m] = true
		for _, f := range x.m.vals {
			in.collectGuarded(f, depth+1)
		}
	case IfaceV:
		if x.t != nil {
			in.collectGuarded(x.v, depth+1)
		}
	}
}

// modelSortSliceFront: contract model of sort.Slice restricted to what the repository reads of large
// sorted slices, the first element: any element k such that no element is strictly before it
// (¬less(j,k) for all j) may end up at index 0 (one path per k); the order of the remaining elements is
// left unspecified (unchanged). Only used where stated in the property's bounds.
func modelSortSliceFront(in *Interp, s SliceV, less Value) Value {
	n := s.len
	k := in.choose(n)
	for j := 0; j < n; j++ {
		if j == k {
			continue
		}
		r := in.invoke(nil, less, []Value{in.ts.BV(uint64(j), 64), in.ts.BV(uint64(k), 64)}, nil, nil).(*Term)
		nr := in.ts.Not(r)
		switch in.decide(nr) {
		case 0:
			panic(pathEnd{"infeasible"})
		case 2:
			in.assume(nr)
		}
	}
	if k != 0 {
		in.journalCell(s.c)
		arr := append(ArrayV{}, s.c.v.(ArrayV)...)
		arr[s.off], arr[s.off+k] = arr[s.off+k], arr[s.off]
		s.c.v = arr
	}
	return nil
}

package sym

import (
	"fmt"
	"go/types"
	"math"

	"golang.org/x/tools/go/ssa"
)

// Value representations (see DESIGN.md §2.2).
type Value interface{}

type Cell struct {
	id int
	v  Value
}

type Ptr struct {
	c    *Cell
	path []int
}

type SliceV struct {
	c             *Cell // backing array cell holding ArrayV; nil => nil slice
	off, len, cap int
}

type StrV struct {
	s   string
	sym []*Term // non-nil => symbolic bytes (8-bit terms), length len(sym)
}

type StructV []Value
type ArrayV []Value
type TupleV []Value

type IfaceV struct {
	t types.Type // nil => nil interface
	v Value
}

type ClosureV struct {
	fn  *ssa.Function
	env []Value
}

type MapObj struct {
	id   int
	keys []Value
	vals []Value
}

type MapV struct{ m *MapObj }

// FloatV: floats are carried as exact expressions (DESIGN §2.4).
//   kind fConst: concrete float64 c
//   kind fInt:   float64(int term a) (signed, width 64 after extension)
//   kind fQuot:  float64(a)/float64(b) exactly rational a/b (b may be 0 -> handled at use)
//   kind fScaled: float64(a) * c   with c a concrete, exactly representable integer-valued float
type FloatV struct {
	kind int
	c    float64
	a, b *Term
	// for a concrete value that came from dividing two integers: the exact rational qa/qb (qb != 0).
	// Further float arithmetic uses c (IEEE semantics); comparisons with symbolic integer expressions
	// use the rational, which agrees with IEEE for operands below 2^26 (DESIGN §2.4).
	qa, qb int64
}

const (
	fConst = iota
	fInt
	fQuot
	fScaled
)

type OpaqueV struct{ what string }

type mapIter struct {
	keys []Value
	vals []Value
	pos  *Cell // holds the position as a plain int so that speculation can undo iterator advances
}

type strIter struct{}

func (s StrV) Len() int {
	if s.sym != nil {
		return len(s.sym)
	}
	return len(s.s)
}

func (s StrV) IsConcrete() bool { return s.sym == nil }

func (in *Interp) strBytes(s StrV) []*Term {
	if s.sym != nil {
		return s.sym
	}
	r := make([]*Term, len(s.s))
	for i := 0; i < len(s.s); i++ {
		r[i] = in.ts.BV(uint64(s.s[i]), 8)
	}
	return r
}

func (in *Interp) mkStr(b []*Term) StrV {
	all := true
	for _, t := range b {
		if !t.IsConst() {
			all = false
			break
		}
	}
	if all {
		bs := make([]byte, len(b))
		for i, t := range b {
			bs[i] = byte(t.C)
		}
		return StrV{s: string(bs)}
	}
	if len(b) == 0 {
		return StrV{}
	}
	return StrV{sym: b}
}

func (in *Interp) strEq(a, b StrV) *Term {
	if a.sym == nil && b.sym == nil {
		return in.ts.Bool(a.s == b.s)
	}
	if a.Len() != b.Len() {
		return in.ts.False
	}
	x, y := in.strBytes(a), in.strBytes(b)
	r := in.ts.True
	for i := range x {
		r = in.ts.And(r, in.ts.Eq(x[i], y[i]))
	}
	return r
}

func intInfo(t types.Type) (w int, signed bool, ok bool) {
	b, isB := t.Underlying().(*types.Basic)
	if !isB {
		return 0, false, false
	}
	switch b.Kind() {
	case types.Int, types.Int64, types.UntypedInt:
		return 64, true, true
	case types.Int32, types.UntypedRune:
		return 32, true, true
	case types.Int16:
		return 16, true, true
	case types.Int8:
		return 8, true, true
	case types.Uint, types.Uint64, types.Uintptr:
		return 64, false, true
	case types.Uint32:
		return 32, false, true
	case types.Uint16:
		return 16, false, true
	case types.Uint8:
		return 8, false, true
	}
	return 0, false, false
}

func isFloat(t types.Type) bool {
	b, ok := t.Underlying().(*types.Basic)
	return ok && (b.Kind() == types.Float64 || b.Kind() == types.Float32 || b.Kind() == types.UntypedFloat)
}

func isBoolT(t types.Type) bool {
	b, ok := t.Underlying().(*types.Basic)
	return ok && (b.Kind() == types.Bool || b.Kind() == types.UntypedBool)
}

func isStringT(t types.Type) bool {
	b, ok := t.Underlying().(*types.Basic)
	return ok && (b.Kind() == types.String || b.Kind() == types.UntypedString)
}

func (in *Interp) zero(t types.Type) Value {
	switch tt := t.Underlying().(type) {
	case *types.Basic:
		if w, _, ok := intInfo(tt); ok {
			return in.ts.BV(0, w)
		}
		switch tt.Kind() {
		case types.Bool, types.UntypedBool:
			return in.ts.False
		case types.String, types.UntypedString:
			return StrV{}
		case types.Float64, types.Float32, types.UntypedFloat:
			return FloatV{kind: fConst, c: 0}
		case types.UnsafePointer:
			return Ptr{}
		case types.UntypedNil:
			return nil
		}
		panic(unsupported{"zero of basic " + tt.String()})
	case *types.Pointer:
		return Ptr{}
	case *types.Slice:
		return SliceV{}
	case *types.Map:
		return MapV{}
	case *types.Interface:
		return IfaceV{}
	case *types.Signature:
		return nil
	case *types.Chan:
		return OpaqueV{"chan"}
	case *types.Struct:
		s := make(StructV, tt.NumFields())
		for i := range s {
			s[i] = in.zero(tt.Field(i).Type())
		}
		return s
	case *types.Array:
		a := make(ArrayV, int(tt.Len()))
		for i := range a {
			a[i] = in.zero(tt.Elem())
		}
		return a
	case *types.Tuple:
		tu := make(TupleV, tt.Len())
		for i := range tu {
			tu[i] = in.zero(tt.At(i).Type())
		}
		return tu
	}
	panic(unsupported{"zero of " + t.String()})
}

// load reads the value designated by p.
func (in *Interp) load(p Ptr) Value {
	if p.c == nil {
		in.goPanic("nil pointer dereference")
	}
	v := p.c.v
	for _, i := range p.path {
		switch a := v.(type) {
		case StructV:
			v = a[i]
		case ArrayV:
			v = a[i]
		default:
			panic(fmt.Sprintf("load: bad path into %T", v))
		}
	}
	return v
}

func updatePath(v Value, path []int, nv Value) Value {
	if len(path) == 0 {
		return nv
	}
	switch a := v.(type) {
	case StructV:
		c := make(StructV, len(a))
		copy(c, a)
		c[path[0]] = updatePath(a[path[0]], path[1:], nv)
		return c
	case ArrayV:
		c := make(ArrayV, len(a))
		copy(c, a)
		c[path[0]] = updatePath(a[path[0]], path[1:], nv)
		return c
	}
	panic(fmt.Sprintf("store: bad path into %T", v))
}

func (in *Interp) store(p Ptr, nv Value) {
	if p.c == nil {
		in.goPanic("nil pointer dereference")
	}
	in.journalCell(p.c)
	p.c.v = updatePath(p.c.v, p.path, nv)
}

func (in *Interp) newCell(v Value) *Cell {
	in.cellSeq++
	return &Cell{id: in.cellSeq, v: v}
}

func ptrEq(a, b Ptr) bool {
	if a.c != b.c || len(a.path) != len(b.path) {
		return false
	}
	for i := range a.path {
		if a.path[i] != b.path[i] {
			return false
		}
	}
	return true
}

// valueEq returns a Bool term for Go's == on two values of the same static type.
func (in *Interp) valueEq(a, b Value) *Term {
	switch x := a.(type) {
	case *Term:
		y, ok := b.(*Term)
		if !ok {
			panic(fmt.Sprintf("valueEq: %T vs %T", a, b))
		}
		return in.ts.Eq(x, y)
	case StrV:
		return in.strEq(x, b.(StrV))
	case Ptr:
		return in.ts.Bool(ptrEq(x, b.(Ptr)))
	case IfaceV:
		y := b.(IfaceV)
		if x.t == nil || y.t == nil {
			return in.ts.Bool(x.t == nil && y.t == nil)
		}
		if !types.Identical(x.t, y.t) {
			return in.ts.False
		}
		return in.valueEq(x.v, y.v)
	case StructV:
		y := b.(StructV)
		r := in.ts.True
		for i := range x {
			r = in.ts.And(r, in.valueEq(x[i], y[i]))
		}
		return r
	case ArrayV:
		y := b.(ArrayV)
		r := in.ts.True
		for i := range x {
			r = in.ts.And(r, in.valueEq(x[i], y[i]))
		}
		return r
	case MapV:
		return in.ts.Bool(x.m == b.(MapV).m)
	case SliceV:
		// only comparison with nil is legal
		y := b.(SliceV)
		return in.ts.Bool(x.c == nil && y.c == nil)
	case nil:
		return in.ts.Bool(b == nil)
	case *ssa.Function:
		return in.ts.Bool(b == a)
	case FloatV:
		return in.floatCmp("==", x, b.(FloatV))
	case OpaqueV:
		return in.ts.True
	}
	panic(unsupported{fmt.Sprintf("valueEq on %T", a)})
}

// mergeValue builds ite(c, a, b) for values; ok=false if the values cannot be merged.
func (in *Interp) mergeValue(c *Term, a, b Value) (Value, bool) {
	switch x := a.(type) {
	case *Term:
		y, ok := b.(*Term)
		if !ok || x.W != y.W {
			return nil, false
		}
		return in.ts.Ite(c, x, y), true
	case StrV:
		y, ok := b.(StrV)
		if !ok {
			return nil, false
		}
		if x.sym == nil && y.sym == nil && x.s == y.s {
			return x, true
		}
		if x.Len() != y.Len() {
			return nil, false
		}
		xb, yb := in.strBytes(x), in.strBytes(y)
		r := make([]*Term, len(xb))
		for i := range xb {
			r[i] = in.ts.Ite(c, xb[i], yb[i])
		}
		return in.mkStr(r), true
	case Ptr:
		y, ok := b.(Ptr)
		if ok && ptrEq(x, y) {
			return x, true
		}
		return nil, false
	case SliceV:
		y, ok := b.(SliceV)
		if ok && x == y {
			return x, true
		}
		return nil, false
	case MapV:
		y, ok := b.(MapV)
		if ok && x.m == y.m {
			return x, true
		}
		return nil, false
	case IfaceV:
		y, ok := b.(IfaceV)
		if !ok {
			return nil, false
		}
		if x.t == nil && y.t == nil {
			return x, true
		}
		if x.t == nil || y.t == nil || !types.Identical(x.t, y.t) {
			return nil, false
		}
		v, ok := in.mergeValue(c, x.v, y.v)
		if !ok {
			return nil, false
		}
		return IfaceV{x.t, v}, true
	case StructV:
		y, ok := b.(StructV)
		if !ok || len(x) != len(y) {
			return nil, false
		}
		r := make(StructV, len(x))
		for i := range x {
			v, ok := in.mergeValue(c, x[i], y[i])
			if !ok {
				return nil, false
			}
			r[i] = v
		}
		return r, true
	case ArrayV:
		y, ok := b.(ArrayV)
		if !ok || len(x) != len(y) {
			return nil, false
		}
		r := make(ArrayV, len(x))
		for i := range x {
			v, ok := in.mergeValue(c, x[i], y[i])
			if !ok {
				return nil, false
			}
			r[i] = v
		}
		return r, true
	case TupleV:
		y, ok := b.(TupleV)
		if !ok || len(x) != len(y) {
			return nil, false
		}
		r := make(TupleV, len(x))
		for i := range x {
			v, ok := in.mergeValue(c, x[i], y[i])
			if !ok {
				return nil, false
			}
			r[i] = v
		}
		return r, true
	case nil:
		if b == nil {
			return nil, true
		}
		return nil, false
	case *ssa.Function:
		if b == a {
			return a, true
		}
		return nil, false
	case FloatV:
		y, ok := b.(FloatV)
		if ok && x == y {
			return x, true
		}
		return nil, false
	case OpaqueV:
		return a, true
	case JSONV:
		return nil, false
	case ClosureV:
		return nil, false
	case int: // iterator positions
		if y, ok := b.(int); ok && y == x {
			return x, true
		}
		return nil, false
	}
	return nil, false
}

var _ = math.Inf

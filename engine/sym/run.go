package sym

import (
	"fmt"
	"go/types"
	"os"
	"runtime/debug"
	"sort"
	"strings"
	"time"

	"golang.org/x/tools/go/packages"
	"golang.org/x/tools/go/ssa"
	"golang.org/x/tools/go/ssa/ssautil"
)

// Program: the SSA program of /repo's current working tree with harness overlays injected.
type Program struct {
	Prog  *ssa.Program
	Pkgs  map[string]*ssa.Package
	Sizes types.Sizes
	Fset  interface{}
}

// ModDir is the module from which /repo is loaded (it carries the replace directive).
var ModDir = "/verif/engine"

const RepoPath = "github.com/weedbox/pokerface"

// LoadProgram loads the given repo packages (import paths) with overlay files (virtual path -> content).
func LoadProgram(pkgPaths []string, overlay map[string][]byte, tags []string) (*Program, error) {
	cfg := &packages.Config{
		Mode:    packages.LoadAllSyntax,
		Overlay: overlay,
		Dir:     ModDir,
		Env:     append(os.Environ(), "GOFLAGS=-mod=mod", "GOPROXY=off", "GOSUMDB=off", "GOTOOLCHAIN=local"),
	}
	if len(tags) > 0 {
		cfg.BuildFlags = []string{"-tags=" + strings.Join(tags, ",")}
	}
	pkgs, err := packages.Load(cfg, pkgPaths...)
	if err != nil {
		return nil, err
	}
	var errs []string
	packages.Visit(pkgs, nil, func(p *packages.Package) {
		for _, e := range p.Errors {
			errs = append(errs, e.Error())
		}
	})
	if len(errs) > 0 {
		return nil, fmt.Errorf("package load errors:\n%s", strings.Join(errs, "\n"))
	}
	prog, spkgs := ssautil.AllPackages(pkgs, ssa.InstantiateGenerics)
	prog.Build()
	p := &Program{Prog: prog, Pkgs: map[string]*ssa.Package{}, Sizes: types.SizesFor("gc", "amd64")}
	for i, sp := range spkgs {
		if sp != nil {
			p.Pkgs[pkgs[i].PkgPath] = sp
		}
	}
	// also index dependencies
	for _, sp := range prog.AllPackages() {
		if _, ok := p.Pkgs[sp.Pkg.Path()]; !ok {
			p.Pkgs[sp.Pkg.Path()] = sp
		}
	}
	return p, nil
}

// Job: one harness function with concrete shape arguments.
type Job struct {
	Pkg     string
	Harness string
	Args    []int
	Cfg     JobConfig
	Prefix  []int // DFS choices fixed for this job (work splitting); nil = whole tree
	// WantWork reports whether idle workers are waiting; Spawn hands a sub-tree to them.
	WantWork func() bool   `json:"-"`
	Spawn    func(job Job) `json:"-"`
}

type JobResult struct {
	Job          Job
	Violations   []Violation
	Covers       map[string]*CoverHit
	Stats        PathStats
	Solver       SolverStats
	IntSolver    SolverStats
	Functions    []string
	Models       []string
	Wall         float64
	EngineError  string
	Samples      []PathSample
	Inconclusive map[string]int
}

type PathSample struct {
	Harness string
	Args    []int
	Inputs  map[string]uint64
	Observed map[string]uint64
	Choices []int
}

func NewInterp(p *Program, solverKind string, cfg *JobConfig, timeoutMs int) (*Interp, error) {
	s, err := NewSolver(solverKind, timeoutMs)
	if err != nil {
		return nil, err
	}
	in := &Interp{
		prog:      p.Prog,
		ts:        NewTermStore(),
		solver:    s,
		cfg:       cfg,
		globals:   map[*ssa.Global]*Cell{},
		sizes:     p.Sizes,
		cache:     map[[2]uint64]Verdict{},
		callLog:   map[string]bool{},
		modelsLog: map[string]bool{},
		Covers:    map[string]*CoverHit{},
		pdomCache: map[*ssa.Function]map[*ssa.BasicBlock]*ssa.BasicBlock{},
		violSeen:  map[string]int{},
		mergeBlacklist: map[*ssa.BasicBlock]int{},
		qSites: map[string]int{},
		inStub: map[string]bool{},
	}
	if is, err := NewSolver(solverKind, timeoutMs); err == nil {
		is.IntMode = true
		in.isolver = is
	}
	in.resetPath()
	return in, nil
}

func (in *Interp) resetPath() {
	in.pc = in.pc[:0]
	in.pcHash = in.pcHash[:0]
	in.known = map[int]bool{}
	in.knownLog = in.knownLog[:0]
	in.tracePos = 0
	in.journal = in.journal[:0]
	in.spec = 0
	in.steps = 0
	in.depth = 0
	in.inputs = in.inputs[:0]
	in.inputSeq = map[string]int{}
	in.kfPanicID = ""
	in.kfPanicRegion = nil
	in.mapOrder = in.cfg.MapOrder
	in.lockState = map[*Cell]int{}
	in.guardOn = false
	in.guardCells = nil
	in.guardMu = nil
	in.divDefs = map[[3]int][2]*Term{}
	in.divSeq = 0
	in.Observes = in.Observes[:0]
	in.fresh = 0
	in.pending = nil
	in.choiceLog = nil
	in.mapRot = -1
	in.oneSided = in.oneSided[:0]
	in.traced = in.traced[:0]
	in.bounds = nil
	// merge decisions must be a deterministic function of the path prefix (DFS re-execution and
	// work splitting replay choice sequences), so the fallback bookkeeping is per path
	in.mergeBlacklist = map[*ssa.BasicBlock]int{}
	in.pathViolated = false
	in.model = map[string]uint64{}
	in.modelMemo = map[int]uint64{}
	in.modelOK = true
}

// initPackages runs the package initialisers of the repository packages (dependencies first).
func (in *Interp) initPackages(p *Program) {
	done := map[*ssa.Package]bool{}
	var visit func(sp *ssa.Package)
	visit = func(sp *ssa.Package) {
		if done[sp] {
			return
		}
		done[sp] = true
		if !strings.HasPrefix(sp.Pkg.Path(), RepoPath) {
			return
		}
		for _, imp := range sp.Pkg.Imports() {
			if d := in.prog.Package(imp); d != nil {
				visit(d)
			}
		}
		if f := sp.Func("init"); f != nil {
			in.initOne(f)
		}
	}
	var paths []string
	for path := range p.Pkgs {
		paths = append(paths, path)
	}
	sort.Strings(paths)
	for _, path := range paths {
		visit(p.Pkgs[path])
	}
	in.initCellSeq = in.cellSeq
	in.initMapSeq = in.mapSeq
}

// initOne runs one package init function, skipping calls to non-repo package inits.
func (in *Interp) initOne(f *ssa.Function) {
	in.initMode = true
	defer func() { in.initMode = false }()
	in.callFunction(f, nil, nil, nil)
}

// RunJob explores all paths of a harness.
func RunJob(p *Program, job Job, solverKind string, timeoutMs int) (res JobResult) {
	t0 := time.Now()
	res.Job = job
	cfg := job.Cfg
	if cfg.MaxSteps == 0 {
		cfg.MaxSteps = 400000
	}
	if cfg.SpecBudget == 0 {
		cfg.SpecBudget = 4000
	}
	if cfg.MaxViolPer == 0 {
		cfg.MaxViolPer = 1
	}
	if cfg.MaxPaths == 0 {
		cfg.MaxPaths = 2000000
	}
	in, err := NewInterp(p, solverKind, &cfg, timeoutMs)
	if err != nil {
		res.EngineError = err.Error()
		return
	}
	defer in.solver.Close()
	defer func() {
		if in.isolver != nil {
			in.isolver.Close()
		}
	}()
	defer func() {
		if r := recover(); r != nil {
			res.EngineError = fmt.Sprintf("engine panic: %v\n%s", r, debug.Stack())
		}
		res.Violations = in.Violations
		res.Covers = in.Covers
		res.Stats = in.Stats
		res.Solver = in.solver.Stats
		if in.isolver != nil {
			res.IntSolver = in.isolver.Stats
		}
		res.Inconclusive = in.Stats.Inconclusive
		for f := range in.callLog {
			res.Functions = append(res.Functions, f)
		}
		sort.Strings(res.Functions)
		for f := range in.modelsLog {
			res.Models = append(res.Models, f)
		}
		sort.Strings(res.Models)
		res.Samples = in.samples
		res.Wall = time.Since(t0).Seconds()
		if debugQ {
			for k, v := range in.qSites {
				fmt.Fprintf(os.Stderr, "Q %6d %s\n", v, k)
			}
		}
	}()
	sp := p.Pkgs[job.Pkg]
	if sp == nil {
		res.EngineError = "package not loaded: " + job.Pkg
		return
	}
	fn := sp.Func(job.Harness)
	if fn == nil {
		res.EngineError = "harness not found: " + job.Harness
		return
	}
	in.curHarness = job.Harness
	in.curArgs = job.Args
	func() {
		defer func() {
			if r := recover(); r != nil {
				if u, ok := r.(unsupported); ok {
					res.EngineError = "package init: " + u.what
					return
				}
				panic(r)
			}
		}()
		in.initPackages(p)
	}()
	if res.EngineError != "" {
		return
	}
	in.callLog = map[string]bool{}
	for _, v := range job.Prefix {
		in.trace = append(in.trace, choice{v, v + 1})
	}
	minDepth := len(job.Prefix)
	if cfg.JobTimeoutS > 0 {
		in.deadline = time.Now().Add(time.Duration(cfg.JobTimeoutS) * time.Second)
	}
	for {
		in.resetPath()
		in.runPath(fn, job.Args)
		in.Stats.Paths++
		if in.aborted {
			break
		}
		// backtrack
		for len(in.trace) > minDepth {
			last := &in.trace[len(in.trace)-1]
			if last.val+1 < last.arity {
				last.val++
				break
			}
			in.trace = in.trace[:len(in.trace)-1]
		}
		if len(in.trace) <= minDepth {
			if len(in.trace) < minDepth || true {
				break
			}
		}
		// work splitting: hand the untried alternatives of the shallowest open choice to idle workers
		if job.WantWork != nil && job.Spawn != nil && in.Stats.Paths%4 == 0 && job.WantWork() {
			for k := minDepth; k < len(in.trace)-1; k++ {
				c := &in.trace[k]
				if c.val+1 < c.arity {
					for alt := c.val + 1; alt < c.arity; alt++ {
						nj := job
						nj.Prefix = nil
						for _, e := range in.trace[:k] {
							nj.Prefix = append(nj.Prefix, e.val)
						}
						nj.Prefix = append(nj.Prefix, alt)
						job.Spawn(nj)
					}
					c.arity = c.val + 1
					break
				}
			}
		}
		if in.Stats.Paths >= cfg.MaxPaths {
			in.inconclusive("path bound hit")
			break
		}
	}
	return
}

func (in *Interp) runPath(fn *ssa.Function, args []int) {
	defer func() {
		if r := recover(); r != nil {
			switch e := r.(type) {
			case pathEnd:
				if e.kind == "infeasible" {
					in.Stats.Infeasible++
					in.pending = nil
				} else {
					in.flushAsserts()
				}
			case unsupported:
				in.inconclusive(e.what)
				in.flushAsserts()
			case jobAbort:
				in.inconclusive(e.why)
				in.aborted = true
			case specAbort:
				panic("specAbort escaped: " + e.why)
			default:
				panic(r)
			}
		}
		// trace entries beyond tracePos cannot exist; entries not consumed (path ended early) are dropped
		in.trace = in.trace[:in.tracePos]
	}()
	vals := make([]Value, len(args))
	for i, a := range args {
		vals[i] = in.ts.BV(uint64(int64(a)), 64)
	}
	in.callFunction(fn, vals, nil, nil)
	in.flushAsserts()
	in.pathDone()
}

// pathDone: sample witness of the completed path for translator validation.
func (in *Interp) pathDone() {
	if in.cfg.SampleEvery <= 0 || len(in.samples) >= in.cfg.MaxSamples || in.pathViolated {
		return
	}
	in.pathSeq++
	if in.pathSeq%in.cfg.SampleEvery != 0 {
		return
	}
	var vars []*Term
	vars = append(vars, in.inputs...)
	for _, o := range in.Observes {
		vars = append(vars, o.Term)
	}
	v, vals := in.pickSolver(vars...).Check(in.pc, nil, vars)
	if v != Sat || len(vals) != len(vars) {
		return
	}
	m := map[string]uint64{}
	for i, t := range in.inputs {
		m[t.Name] = vals[i]
	}
	obs := map[string]uint64{}
	for i, o := range in.Observes {
		obs[o.Name] = vals[len(in.inputs)+i]
	}
	in.samples = append(in.samples, PathSample{Harness: in.curHarness, Args: in.curArgs, Inputs: m, Observed: obs, Choices: append([]int{}, in.choiceLog...)})
}

package sym

import (
	"fmt"
	"math"
	"os"
)

var debugInt = os.Getenv("GOSYM_DEBUG_INT") != ""

// firstUnsafe finds a minimal unsafe sub-term (debugging aid).
func (in *Interp) firstUnsafe(b *boundsInfo, t *Term) string {
	for _, a := range t.Args {
		safe := false
		if a.W == 0 {
			safe = in.intSafe(b, a)
		} else {
			safe = in.interval(b, a).ok
		}
		if !safe {
			return in.firstUnsafe(b, a)
		}
	}
	s := t.String()
	if len(s) > 300 {
		s = s[:300]
	}
	var iv []string
	for _, a := range t.Args {
		if a.W == 64 {
			x := in.interval(b, a)
			iv = append(iv, fmt.Sprintf("[%d,%d]", x.lo, x.hi))
		}
	}
	return fmt.Sprintf("%s  args=%v", s, iv)
}

// Integer-mode safety analysis.
//
// A query (path condition + extra assertions) may be sent to the solver over mathematical integers
// instead of 64-bit bit-vectors when every arithmetic node in it provably cannot wrap: variable
// bounds are mined from the path condition itself (atoms `x < c`, `x >= c`, `x < y`, ...), intervals
// are propagated bottom-up with saturating arithmetic, and a node is safe iff its interval lies within
// [-2^62, 2^62]. Under the variable bounds (which are part of the query in both encodings) every safe
// node has the same value in both semantics, so the two queries are equisatisfiable. Anything else
// (bitwise ops, extracts, widths other than 64, nonlinear products, unsigned compares of possibly
// negative values, division by non-constants) keeps the bit-vector encoding.

const safeLim = int64(1) << 62

type ival struct {
	lo, hi int64
	ok     bool // false: not representable safely
}

func satAdd(a, b int64) int64 {
	c := a + b
	if (a > 0 && b > 0 && c < 0) || (a < 0 && b < 0 && c >= 0) {
		if a > 0 {
			return math.MaxInt64
		}
		return math.MinInt64
	}
	return c
}

func satMul(a, b int64) int64 {
	if a == 0 || b == 0 {
		return 0
	}
	c := a * b
	if c/b != a || (a == -1 && b == math.MinInt64) || (b == -1 && a == math.MinInt64) {
		if (a > 0) == (b > 0) {
			return math.MaxInt64
		}
		return math.MinInt64
	}
	return c
}

func satNeg(a int64) int64 {
	if a == math.MinInt64 {
		return math.MaxInt64
	}
	return -a
}

type boundsInfo struct {
	hash uint64
	lo   map[int]int64
	hi   map[int]int64
	memo map[int]ival
	pcOK bool // every term of the pc is int-safe
	pcN  int
}

// mineBounds extracts variable bounds from the path condition.
func (in *Interp) mineBounds() *boundsInfo {
	h := in.curHash()
	if in.bounds != nil && in.bounds.hash == h && in.bounds.pcN == len(in.pc) {
		return in.bounds
	}
	lo := map[int]int64{}
	hi := map[int]int64{}
	getLo := func(t *Term) int64 {
		if t.IsConst() {
			return t.SVal()
		}
		if v, ok := lo[t.ID]; ok {
			return v
		}
		return math.MinInt64
	}
	getHi := func(t *Term) int64 {
		if t.IsConst() {
			return t.SVal()
		}
		if v, ok := hi[t.ID]; ok {
			return v
		}
		return math.MaxInt64
	}
	setLo := func(t *Term, v int64) bool {
		if t.Op != OpVar || t.W == 0 {
			return false
		}
		if v > getLo(t) {
			lo[t.ID] = v
			return true
		}
		return false
	}
	setHi := func(t *Term, v int64) bool {
		if t.Op != OpVar || t.W == 0 {
			return false
		}
		if v < getHi(t) {
			hi[t.ID] = v
			return true
		}
		return false
	}
	var atoms []*Term
	var collect func(t *Term, pos bool)
	collect = func(t *Term, pos bool) {
		switch {
		case t.Op == OpNot:
			collect(t.Args[0], !pos)
		case t.Op == OpAnd && pos:
			collect(t.Args[0], true)
			collect(t.Args[1], true)
		case t.Op == OpOr && !pos:
			collect(t.Args[0], false)
			collect(t.Args[1], false)
		default:
			if pos {
				atoms = append(atoms, t)
			} else {
				atoms = append(atoms, in.ts.Not(t))
			}
		}
	}
	for _, t := range in.pc {
		collect(t, true)
	}
	for round := 0; round < 4; round++ {
		changed := false
		for _, at := range atoms {
			pos := true
			t := at
			if t.Op == OpNot {
				pos = false
				t = t.Args[0]
			}
			switch t.Op {
			case OpSLT:
				a, b := t.Args[0], t.Args[1]
				if a.W == 0 {
					continue
				}
				if pos { // a < b
					if hb := getHi(b); hb != math.MaxInt64 || b.IsConst() {
						if setHi(a, satAdd(hb, -1)) {
							changed = true
						}
					}
					if la := getLo(a); la != math.MinInt64 || a.IsConst() {
						if setLo(b, satAdd(la, 1)) {
							changed = true
						}
					}
				} else { // a >= b
					if lb := getLo(b); lb != math.MinInt64 || b.IsConst() {
						if setLo(a, lb) {
							changed = true
						}
					}
					if ha := getHi(a); ha != math.MaxInt64 || a.IsConst() {
						if setHi(b, ha) {
							changed = true
						}
					}
				}
			case OpEq:
				if !pos || t.Args[0].W == 0 {
					continue
				}
				a, b := t.Args[0], t.Args[1]
				if b.IsConst() {
					if setLo(a, b.SVal()) {
						changed = true
					}
					if setHi(a, b.SVal()) {
						changed = true
					}
				} else if a.IsConst() {
					if setLo(b, a.SVal()) {
						changed = true
					}
					if setHi(b, a.SVal()) {
						changed = true
					}
				}
			}
		}
		if !changed {
			break
		}
	}
	b := &boundsInfo{hash: h, lo: lo, hi: hi, memo: map[int]ival{}, pcN: len(in.pc)}
	// keep the memo if the bounds did not change
	if in.bounds != nil && sameBounds(in.bounds, b) {
		b.memo = in.bounds.memo
	}
	b.pcOK = true
	for _, t := range in.pc {
		if !in.intSafe(b, t) {
			b.pcOK = false
			break
		}
	}
	in.bounds = b
	return b
}

func sameBounds(a, b *boundsInfo) bool {
	if len(a.lo) != len(b.lo) || len(a.hi) != len(b.hi) {
		return false
	}
	for k, v := range a.lo {
		if w, ok := b.lo[k]; !ok || w != v {
			return false
		}
	}
	for k, v := range a.hi {
		if w, ok := b.hi[k]; !ok || w != v {
			return false
		}
	}
	return true
}

// interval of a 64-bit term (signed interpretation); ok=false when unsafe.
func (in *Interp) interval(b *boundsInfo, t *Term) ival {
	if v, ok := b.memo[t.ID]; ok {
		return v
	}
	r := in.interval1(b, t)
	if r.ok && (r.lo < -safeLim || r.hi > safeLim) {
		// the value itself may be anything (e.g. an unbounded variable): allowed as a leaf value, but
		// arithmetic on it is refused by the callers through the ok flag of the result
		if t.Op != OpVar && t.Op != OpConst && t.Op != OpIte {
			r.ok = false
		}
	}
	b.memo[t.ID] = r
	return r
}

func (in *Interp) interval1(b *boundsInfo, t *Term) ival {
	bad := ival{ok: false}
	if t.W == 0 {
		return bad
	}
	if t.W != 64 {
		// narrower values are read as signed numbers; they are integer-safe when they are constants or
		// value-preserving width changes of integer-safe 64-bit terms
		half := int64(1) << uint(t.W-1)
		switch t.Op {
		case OpConst:
			return ival{t.SVal(), t.SVal(), true}
		case OpVar:
			// narrow variables are read as signed numbers; their range atoms are in the path condition
			lo, hi := -half, half-1
			if v, ok := b.lo[t.ID]; ok && v > lo {
				lo = v
			}
			if v, ok := b.hi[t.ID]; ok && v < hi {
				hi = v
			}
			return ival{lo, hi, true}
		case OpExtract:
			if t.B != 0 {
				return bad
			}
			x := in.interval(b, t.Args[0])
			if !x.ok || x.lo < -half || x.hi >= half {
				return bad
			}
			return x
		case OpIte:
			if !in.intSafe(b, t.Args[0]) {
				return bad
			}
			x, y := in.interval(b, t.Args[1]), in.interval(b, t.Args[2])
			if !x.ok || !y.ok {
				return bad
			}
			if y.lo < x.lo {
				x.lo = y.lo
			}
			if y.hi > x.hi {
				x.hi = y.hi
			}
			return x
		}
		return bad
	}
	switch t.Op {
	case OpConst:
		return ival{t.SVal(), t.SVal(), true}
	case OpSExt:
		return in.interval(b, t.Args[0])
	case OpZExt:
		x := in.interval(b, t.Args[0])
		if !x.ok || x.lo < 0 {
			return bad
		}
		return x
	case OpVar:
		lo, hi := int64(math.MinInt64), int64(math.MaxInt64)
		if v, ok := b.lo[t.ID]; ok {
			lo = v
		}
		if v, ok := b.hi[t.ID]; ok {
			hi = v
		}
		return ival{lo, hi, true}
	case OpAdd, OpSub:
		x, y := in.interval(b, t.Args[0]), in.interval(b, t.Args[1])
		if !x.ok || !y.ok || !small(x) || !small(y) {
			return bad
		}
		if t.Op == OpAdd {
			return ival{satAdd(x.lo, y.lo), satAdd(x.hi, y.hi), true}
		}
		return ival{satAdd(x.lo, satNeg(y.hi)), satAdd(x.hi, satNeg(y.lo)), true}
	case OpNeg:
		x := in.interval(b, t.Args[0])
		if !x.ok || !small(x) {
			return bad
		}
		return ival{satNeg(x.hi), satNeg(x.lo), true}
	case OpMul:
		x, y := in.interval(b, t.Args[0]), in.interval(b, t.Args[1])
		if !x.ok || !y.ok || !small(x) || !small(y) {
			return bad
		}
		if !t.Args[1].IsConst() && !t.Args[0].IsConst() {
			return bad
		}
		c := []int64{satMul(x.lo, y.lo), satMul(x.lo, y.hi), satMul(x.hi, y.lo), satMul(x.hi, y.hi)}
		lo, hi := c[0], c[0]
		for _, v := range c {
			if v < lo {
				lo = v
			}
			if v > hi {
				hi = v
			}
		}
		return ival{lo, hi, true}
	case OpIte:
		if !in.intSafe(b, t.Args[0]) {
			return bad
		}
		x, y := in.interval(b, t.Args[1]), in.interval(b, t.Args[2])
		if !x.ok || !y.ok {
			return bad
		}
		lo, hi := x.lo, x.hi
		if y.lo < lo {
			lo = y.lo
		}
		if y.hi > hi {
			hi = y.hi
		}
		return ival{lo, hi, true}
	case OpSDiv, OpSRem, OpUDiv, OpURem:
		x := in.interval(b, t.Args[0])
		d := t.Args[1]
		if !x.ok || !small(x) || !d.IsConst() || d.SVal() <= 0 || x.lo < 0 {
			return bad
		}
		if t.Op == OpSDiv || t.Op == OpUDiv {
			return ival{x.lo / d.SVal(), x.hi / d.SVal(), true}
		}
		return ival{0, d.SVal() - 1, true}
	}
	return bad
}

func small(x ival) bool { return x.lo >= -safeLim && x.hi <= safeLim }

// intSafe: can the Bool/BV term be sent in integer mode?
func (in *Interp) intSafe(b *boundsInfo, t *Term) bool {
	if t.W != 0 {
		return in.interval(b, t).ok
	}
	if v, ok := b.memo[-t.ID]; ok {
		return v.ok
	}
	r := false
	switch t.Op {
	case OpConst, OpVar:
		r = true
	case OpNot:
		r = in.intSafe(b, t.Args[0])
	case OpAnd, OpOr:
		r = in.intSafe(b, t.Args[0]) && in.intSafe(b, t.Args[1])
	case OpIte:
		r = in.intSafe(b, t.Args[0]) && in.intSafe(b, t.Args[1]) && in.intSafe(b, t.Args[2])
	case OpEq:
		if t.Args[0].W == 0 {
			r = in.intSafe(b, t.Args[0]) && in.intSafe(b, t.Args[1])
		} else {
			r = in.interval(b, t.Args[0]).ok && in.interval(b, t.Args[1]).ok
		}
	case OpSLT:
		r = in.interval(b, t.Args[0]).ok && in.interval(b, t.Args[1]).ok
	case OpULT:
		x, y := in.interval(b, t.Args[0]), in.interval(b, t.Args[1])
		r = x.ok && y.ok && small(x) && small(y)
	}
	b.memo[-t.ID] = ival{ok: r}
	return r
}

// pickSolver chooses the integer-mode solver when pc and extras are overflow-free, else the BV solver.
func (in *Interp) pickSolver(extra ...*Term) *Solver {
	if in.isolver == nil || in.cfg.NoIntMode {
		return in.solver
	}
	b := in.mineBounds()
	if !b.pcOK {
		if debugInt {
			for _, t := range in.pc {
				if !in.intSafe(b, t) {
					fmt.Fprintf(os.Stderr, "BV: pc term unsafe: %s\n", in.firstUnsafe(b, t))
					break
				}
			}
		}
		return in.solver
	}
	for _, e := range extra {
		if !in.intSafe(b, e) {
			if debugInt {
				fmt.Fprintf(os.Stderr, "BV: extra unsafe: %s\n", in.firstUnsafe(b, e))
			}
			return in.solver
		}
	}
	in.intQueries++
	return in.isolver
}

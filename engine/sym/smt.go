package sym

import (
	"bufio"
	"fmt"
	"io"
	"os"
	"os/exec"
	"strconv"
	"strings"
	"time"
)

// Solver: one live SMT solver process (z3 -in by default) driven over pipes with push/pop.
// The assertion stack mirrors a path condition: one push level per asserted term.

type Verdict int

const (
	Unsat Verdict = iota
	Sat
	Unknown
)

func (v Verdict) String() string { return [...]string{"unsat", "sat", "unknown"}[v] }

type SolverStats struct {
	Queries  int
	Sat      int
	Unsat    int
	Unknown  int
	Errors   int
	Seconds  float64
	Restarts int
}

type Solver struct {
	kind    string // "z3", "z3-new", "cvc5"
	cmd     *exec.Cmd
	in      io.WriteCloser
	out     *bufio.Reader
	defined map[int]bool
	stack   []*Term // asserted terms, one push level each
	Stats   SolverStats
	timeout int // ms per query
	Log     io.Writer
	IntMode bool // terms are emitted over mathematical integers (only for queries proven overflow-free)
}

func NewSolver(kind string, timeoutMs int) (*Solver, error) {
	s := &Solver{kind: kind, timeout: timeoutMs}
	if lp := os.Getenv("GOSYM_SMTLOG"); lp != "" {
		f, _ := os.Create(lp)
		s.Log = f
	}
	if err := s.start(); err != nil {
		return nil, err
	}
	return s, nil
}

func (s *Solver) start() error {
	var cmd *exec.Cmd
	switch s.kind {
	case "z3", "z3-new":
		cmd = exec.Command(s.kind, "-in")
	case "cvc5":
		cmd = exec.Command("cvc5", "--incremental", "--lang=smt2", "--produce-models")
	case "cvc5-int":
		cmd = exec.Command("cvc5", "--incremental", "--lang=smt2", "--produce-models", "--solve-bv-as-int=sum")
	default:
		return fmt.Errorf("unknown solver %q", s.kind)
	}
	in, err := cmd.StdinPipe()
	if err != nil {
		return err
	}
	out, err := cmd.StdoutPipe()
	if err != nil {
		return err
	}
	cmd.Stderr = nil
	if err := cmd.Start(); err != nil {
		return err
	}
	s.cmd, s.in, s.out = cmd, in, bufio.NewReaderSize(out, 1<<16)
	s.defined = map[int]bool{}
	s.stack = nil
	switch s.kind {
	case "cvc5", "cvc5-int":
		s.send("(set-logic ALL)\n(set-option :global-declarations true)\n")
		if s.timeout > 0 {
			s.send(fmt.Sprintf("(set-option :tlimit-per %d)\n", s.timeout))
		}
	default:
		s.send("(set-option :global-decls true)\n(set-option :produce-models true)\n")
		if s.timeout > 0 {
			s.send(fmt.Sprintf("(set-option :timeout %d)\n", s.timeout))
		}
	}
	return nil
}

func (s *Solver) Close() {
	if s.cmd != nil {
		s.in.Close()
		s.cmd.Process.Kill()
		s.cmd.Wait()
		s.cmd = nil
	}
}

func (s *Solver) restart() {
	s.Close()
	s.Stats.Restarts++
	if err := s.start(); err != nil {
		panic(err)
	}
}

func (s *Solver) send(txt string) {
	if s.Log != nil {
		io.WriteString(s.Log, txt)
	}
	io.WriteString(s.in, txt)
}

// define emits declarations/definitions for t and everything below it not yet known to the session.
func (s *Solver) define(t *Term, sb *strings.Builder) {
	if t.Op == OpConst || s.defined[t.ID] {
		return
	}
	// iterative post-order to avoid deep recursion
	type fr struct {
		t *Term
		i int
	}
	st := []fr{{t, 0}}
	for len(st) > 0 {
		f := &st[len(st)-1]
		if f.t.Op == OpConst || s.defined[f.t.ID] {
			st = st[:len(st)-1]
			continue
		}
		if f.i < len(f.t.Args) {
			a := f.t.Args[f.i]
			f.i++
			if a.Op != OpConst && !s.defined[a.ID] {
				st = append(st, fr{a, 0})
			}
			continue
		}
		x := f.t
		s.defined[x.ID] = true
		if s.IntMode {
			if x.Op == OpVar {
				fmt.Fprintf(sb, "(declare-const %s %s)\n", smtNameI(x), sortStrI(x.W))
			} else {
				fmt.Fprintf(sb, "(define-fun %s () %s %s)\n", smtNameI(x), sortStrI(x.W), smtBodyI(x))
			}
		} else if x.Op == OpVar {
			fmt.Fprintf(sb, "(declare-const %s %s)\n", smtName(x), sortStr(x.W))
		} else {
			fmt.Fprintf(sb, "(define-fun %s () %s %s)\n", smtName(x), sortStr(x.W), smtBody(x))
		}
		st = st[:len(st)-1]
	}
}

// Sync makes the solver's assertion stack equal to pc.
func (s *Solver) Sync(pc []*Term) {
	n := 0
	for n < len(pc) && n < len(s.stack) && pc[n] == s.stack[n] {
		n++
	}
	var sb strings.Builder
	if len(s.stack) > n {
		fmt.Fprintf(&sb, "(pop %d)\n", len(s.stack)-n)
		s.stack = s.stack[:n]
	}
	for _, t := range pc[n:] {
		s.define(t, &sb)
		fmt.Fprintf(&sb, "(push 1)\n(assert %s)\n", s.name(t))
		s.stack = append(s.stack, t)
	}
	if sb.Len() > 0 {
		s.send(sb.String())
	}
}

func (s *Solver) name(t *Term) string {
	if s.IntMode {
		return smtNameI(t)
	}
	return smtName(t)
}

func (s *Solver) readLine() (string, error) {
	line, err := s.out.ReadString('\n')
	return strings.TrimSpace(line), err
}

// Check decides satisfiability of (stack ∧ extra...). If wantModel and sat, the values of vars are returned.
func (s *Solver) Check(pc []*Term, extra []*Term, vars []*Term) (Verdict, []uint64) {
	t0 := time.Now()
	defer func() { s.Stats.Seconds += time.Since(t0).Seconds() }()
	s.Stats.Queries++
	s.Sync(pc)
	var sb strings.Builder
	for _, e := range extra {
		s.define(e, &sb)
	}
	for _, v := range vars {
		s.define(v, &sb)
	}
	sb.WriteString("(push 1)\n")
	for _, e := range extra {
		fmt.Fprintf(&sb, "(assert %s)\n", s.name(e))
	}
	sb.WriteString("(check-sat)\n")
	s.send(sb.String())
	res := Unknown
	sawErr := false
	for {
		line, err := s.readLine()
		if err != nil {
			s.Stats.Errors++
			s.Stats.Unknown++
			s.restart()
			return Unknown, nil
		}
		if line == "" {
			continue
		}
		if strings.HasPrefix(line, "(error") {
			s.Stats.Errors++
			sawErr = true
			// keep reading until verdict line
			continue
		}
		switch line {
		case "sat":
			res = Sat
		case "unsat":
			res = Unsat
		case "unknown", "timeout":
			res = Unknown
		default:
			continue
		}
		break
	}
	var model []uint64
	if res == Sat && len(vars) > 0 {
		var q strings.Builder
		q.WriteString("(get-value (")
		for _, v := range vars {
			q.WriteString(s.name(v))
			q.WriteString(" ")
		}
		q.WriteString("))\n")
		s.send(q.String())
		model = s.readModel(len(vars))
	}
	s.send("(pop 1)\n")
	if sawErr {
		res = Unknown
	}
	if d := time.Since(t0).Seconds(); d > 5 && os.Getenv("GOSYM_DUMP_SLOW") != "" {
		s.dumpFlat(pc, extra, fmt.Sprintf("%s/slow_%d_%s.smt2", os.Getenv("GOSYM_DUMP_SLOW"), s.Stats.Queries, res))
	}
	switch res {
	case Sat:
		s.Stats.Sat++
	case Unsat:
		s.Stats.Unsat++
	default:
		s.Stats.Unknown++
	}
	return res, model
}

// readModel parses the answer of get-value positionally: a list of (expr value) pairs.
func (s *Solver) readModel(n int) []uint64 {
	// read one balanced s-expression
	var buf []byte
	depth := 0
	started := false
	inBar := false
	for {
		c, err := s.out.ReadByte()
		if err != nil {
			return nil
		}
		buf = append(buf, c)
		if inBar {
			if c == '|' {
				inBar = false
			}
			continue
		}
		switch c {
		case '|':
			inBar = true
		case '(':
			depth++
			started = true
		case ')':
			depth--
		}
		if started && depth == 0 {
			break
		}
	}
	// walk: at depth 1 each child is a pair; the value is the last atom (or (_ bvN w)) of the pair
	res := make([]uint64, 0, n)
	i := 0
	depth = 0
	var lastTok string
	var pairStart bool
	_ = pairStart
	for i < len(buf) {
		c := buf[i]
		switch {
		case c == '(':
			depth++
			i++
			if depth >= 3 && i+2 < len(buf) && buf[i] == '-' && buf[i+1] == ' ' {
				e := i + 2
				for e < len(buf) && buf[e] >= '0' && buf[e] <= '9' {
					e++
				}
				if e > i+2 && e < len(buf) && buf[e] == ')' {
					lastTok = "neg" + string(buf[i+2:e])
					i = e + 1
					depth--
					continue
				}
			}
			if depth >= 2 && i+4 < len(buf) && string(buf[i:i+4]) == "_ bv" {
				e := i + 4
				for e < len(buf) && buf[e] >= '0' && buf[e] <= '9' {
					e++
				}
				lastTok = "bv" + string(buf[i+4:e])
				// skip to matching ')'
				for i < len(buf) && buf[i] != ')' {
					i++
				}
				i++
				depth--
			}
		case c == ')':
			if depth == 2 {
				res = append(res, parseVal(lastTok))
			}
			depth--
			i++
		case c == '|':
			e := i + 1
			for e < len(buf) && buf[e] != '|' {
				e++
			}
			lastTok = string(buf[i : e+1])
			i = e + 1
		case c == ' ' || c == '\n' || c == '\t' || c == '\r':
			i++
		default:
			e := i
			for e < len(buf) && buf[e] != ' ' && buf[e] != ')' && buf[e] != '(' && buf[e] != '\n' {
				e++
			}
			lastTok = string(buf[i:e])
			i = e
		}
	}
	return res
}

func parseVal(tok string) uint64 {
	switch {
	case strings.HasPrefix(tok, "#x"):
		v, _ := strconv.ParseUint(tok[2:], 16, 64)
		return v
	case strings.HasPrefix(tok, "#b"):
		v, _ := strconv.ParseUint(tok[2:], 2, 64)
		return v
	case tok == "true":
		return 1
	case tok == "false":
		return 0
	case strings.HasPrefix(tok, "bv"):
		v, _ := strconv.ParseUint(tok[2:], 10, 64)
		return v
	case strings.HasPrefix(tok, "neg"):
		v, _ := strconv.ParseUint(tok[3:], 10, 64)
		return -v
	}
	if len(tok) > 0 && tok[0] >= '0' && tok[0] <= '9' {
		v, _ := strconv.ParseUint(tok, 10, 64)
		return v
	}
	return 0
}

// dumpFlat writes a standalone (non-incremental) SMT-LIB file for pc ∧ extra.
func (s *Solver) dumpFlat(pc, extra []*Term, path string) {
	tmp := &Solver{defined: map[int]bool{}, IntMode: s.IntMode}
	var sb strings.Builder
	for _, t := range pc {
		tmp.define(t, &sb)
	}
	for _, t := range extra {
		tmp.define(t, &sb)
	}
	for _, t := range pc {
		fmt.Fprintf(&sb, "(assert %s)\n", tmp.name(t))
	}
	for _, t := range extra {
		fmt.Fprintf(&sb, "(assert %s)\n", tmp.name(t))
	}
	sb.WriteString("(check-sat)\n")
	os.WriteFile(path, []byte(sb.String()), 0o644)
}

package main

import (
	"encoding/json"
	"flag"
	"fmt"
	"os"
	"path/filepath"
	"strconv"
	"strings"

	"verif/engine/sym"
)

// repoRoot: the tree under test. Registered checks always use /repo; VERIF_REPO_ROOT points the
// machinery at a scratch copy (used only for measuring detection of seeded changes).
var repoRoot = "/repo"
var scratchDir = ""

func setupRepoRoot() {
	r := os.Getenv("VERIF_REPO_ROOT")
	if r == "" || r == "/repo" {
		return
	}
	repoRoot = r
	// a module directory whose replace directive points at the scratch copy
	scratchDir = filepath.Join(os.TempDir(), "verif_scratch_"+filepath.Base(r))
	md := filepath.Join(scratchDir, "mod")
	os.MkdirAll(md, 0o755)
	gm, _ := os.ReadFile(filepath.Join(sym.ModDir, "go.mod"))
	os.WriteFile(filepath.Join(md, "go.mod"), []byte(strings.ReplaceAll(string(gm), "=> /repo", "=> "+r)), 0o644)
	gs, _ := os.ReadFile(filepath.Join(sym.ModDir, "go.sum"))
	os.WriteFile(filepath.Join(md, "go.sum"), gs, 0o644)
	sym.ModDir = md
}

func main() {
	setupRepoRoot()
	if len(os.Args) < 2 {
		fmt.Println("usage: gosym run|check ...")
		os.Exit(2)
	}
	switch os.Args[1] {
	case "run":
		cmdRun(os.Args[2:])
	case "check":
		cmdCheck(os.Args[2:])
	default:
		fmt.Println("unknown command")
		os.Exit(2)
	}
}

// loadOverlay maps every harness file to a virtual file inside the corresponding /repo package and
// adds the harness API (symbolic or native build) to each package that has harness files.
func loadOverlay(harnessDir string, native bool) map[string][]byte {
	ov := map[string][]byte{}
	pkgDirs := map[string]bool{}
	filepath.Walk(harnessDir, func(path string, info os.FileInfo, err error) error {
		if err != nil {
			return nil
		}
		if info.IsDir() {
			if strings.HasPrefix(info.Name(), "_") {
				return filepath.SkipDir
			}
			return nil
		}
		if !strings.HasSuffix(path, ".go") {
			return nil
		}
		base := filepath.Base(path)
		isTest := strings.HasSuffix(base, "_test.go")
		if (isTest || strings.HasSuffix(base, "_native.go")) && !native {
			return nil
		}
		rel, _ := filepath.Rel(harnessDir, filepath.Dir(path))
		if rel == "root" {
			rel = ""
		}
		data, _ := os.ReadFile(path)
		ov[filepath.Join(repoRoot, rel, base)] = data
		pkgDirs[rel] = true
		return nil
	})
	tmpl := "api_sym.go.tmpl"
	if native {
		tmpl = "api_native.go.tmpl"
	}
	tdata, err := os.ReadFile(filepath.Join(harnessDir, "_api", tmpl))
	if err != nil {
		panic(err)
	}
	for rel := range pkgDirs {
		name := "pokerface"
		if rel != "" {
			name = filepath.Base(rel)
		}
		ov[filepath.Join(repoRoot, rel, "zz_verif_api.go")] = []byte(strings.ReplaceAll(string(tdata), "PKGNAME", name))
	}
	return ov
}

func cmdRun(args []string) {
	fs := flag.NewFlagSet("run", flag.ExitOnError)
	pkg := fs.String("pkg", "", "package path relative to repo root ('' = root)")
	harness := fs.String("harness", "", "harness function")
	argstr := fs.String("args", "", "comma-separated int args")
	solver := fs.String("solver", "z3", "solver")
	nomerge := fs.Bool("no-merge", false, "disable if-conversion")
	maporder := fs.String("maporder", "insertion", "map order policy")
	hdir := fs.String("harness-dir", "/verif/harness", "harness dir")
	noint := fs.Bool("no-int", false, "disable integer mode")
	native := fs.Bool("native", false, "replay violations natively")
	maxPaths := fs.Int("max-paths", 0, "stop after this many paths")
	prefix := fs.String("prefix", "", "DFS prefix")
	stubs := fs.String("stubs", "", "fn=replacement,...")
	sortFront := fs.Int("sort-front-above", 0, "contract model (front element only) for sort.Slice above this length")
	swaps := fs.Int("shuffle-swaps", 0, "number of arbitrary swaps modelling rand.Shuffle")
	fs.Parse(args)
	var iargs []int
	if *argstr != "" {
		for _, a := range strings.Split(*argstr, ",") {
			v, _ := strconv.Atoi(a)
			iargs = append(iargs, v)
		}
	}
	full := sym.RepoPath
	if *pkg != "" {
		full += "/" + *pkg
	}
	p, err := sym.LoadProgram([]string{full}, loadOverlay(*hdir, false), []string{"verif"})
	if err != nil {
		fmt.Println(err)
		os.Exit(2)
	}
	knownOpen, _ := loadKnown()
	res := sym.RunJob(p, sym.Job{Pkg: full, Harness: *harness, Args: iargs, Prefix: parseInts(*prefix), Cfg: sym.JobConfig{MaxPaths: *maxPaths, Stubs: parseStubs(*stubs), ShuffleSwaps: *swaps, SortFrontOnlyAbove: *sortFront, KnownOpen: knownOpen, NoMerge: *nomerge, NoIntMode: *noint, MapOrder: *maporder, SampleEvery: 1, MaxSamples: 3}}, *solver, 60000)
	res.Functions = nil
	out, _ := json.MarshalIndent(res, "", " ")
	fmt.Println(string(out))
	if *native {
		wd := "/tmp/gosym_run_work"
		os.RemoveAll(wd)
		os.MkdirAll(wd, 0o755)
		var files []string
		for _, v := range res.Violations {
			vec := replayVector{Harness: v.Harness, Pkg: full, Args: v.Args, Values: v.Model, Choices: v.Choices}
			vec.Expect.Kind, vec.Expect.ID = v.Kind, v.ID
			files = append(files, writeVector(wd, vec))
		}
		rs, err := runNative(wd, full, files)
		fmt.Fprintln(os.Stderr, "native:", err)
		for f, r := range rs {
			fmt.Fprintf(os.Stderr, "native %s: failed=%v panic=%q assume_failed=%v\n", f, r.Failed, r.Panic, r.AssumeFailed)
		}
	}
}

func parseInts(s string) []int {
	var r []int
	if s == "" {
		return nil
	}
	for _, a := range strings.Split(s, ",") {
		v, _ := strconv.Atoi(a)
		r = append(r, v)
	}
	return r
}

func parseStubs(s string) map[string]string {
	m := map[string]string{}
	if s == "" {
		return m
	}
	for _, kv := range strings.Split(s, ",") {
		p := strings.SplitN(kv, "=", 2)
		if len(p) == 2 {
			m[p[0]] = p[1]
		}
	}
	return m
}

package main

import (
	"strings"

	"verif/engine/sym"
)

// PropSpec: how one property is decided (harness jobs per tier, bounds, what lies outside them).
type PropSpec struct {
	ID          string
	Pkgs        []string
	Jobs        func(tier string) []sym.Job
	Covers      func(tier string) []string
	Bounds      func(tier string) []string
	Outside     []string
	Assumptions []string
	Explanation string
	// AssertPrefix: only assertions whose id starts with one of these belong to this property
	// (harnesses are shared between properties); panics always count.
	AssertPrefix []string
}

var props = map[string]*PropSpec{}

func register(p *PropSpec) { props[p.ID] = p }

func fact(n int) int {
	r := 1
	for i := 2; i <= n; i++ {
		r *= i
	}
	return r
}

var commonAssumptions = []string{
	"go/ssa (golang.org/x/tools v0.29.0) faithfully represents the Go source; the gosym executor's instruction semantics (validated per run by native replay of path witnesses)",
	"z3 4.8.12 verdicts (unknown/error verdicts are reported as inconclusive, never as success)",
	"Go map iteration order is explored according to the stated policy only",
	"queries whose every arithmetic node is proven overflow-free by interval analysis (variable bounds mined from the path condition) are sent over mathematical integers; all others keep the 64-bit bit-vector encoding (engine/sym/intsafe.go)",
}

func init() {
	register(&PropSpec{
		ID:   "C16",
		Pkgs: []string{"pot"},
		Jobs: func(tier string) []sym.Job {
			var js []sym.Job
			add := func(n, order, folds int, mo string) {
				js = append(js, sym.Job{Pkg: "pot", Harness: "Harness_C16", Args: []int{n, order, folds}, Cfg: sym.JobConfig{MapOrder: mo}})
			}
			maxAll := 3
			for n := 1; n <= maxAll; n++ {
				for o := 0; o < fact(n); o++ {
					for f := 0; f < 1<<uint(n); f++ {
						add(n, o, f, "rotations")
					}
				}
			}
			if tier == "thorough" {
				for o := 0; o < 24; o++ {
					for f := 0; f < 16; f++ {
						add(4, o, f, "insertion")
					}
				}
				for f := 0; f < 32; f++ {
					add(5, 0, f, "insertion")
				}
				for _, f := range []int{0, 1, 2, 4, 8, 16, 32, 3, 12, 48, 33, 21, 42} {
					add(6, 0, f, "insertion")
				}
			} else {
				for f := 0; f < 16; f++ {
					add(4, 0, f, "insertion")
				}
				add(5, 0, 0, "insertion")
				add(5, 0, 5, "insertion")
				add(6, 0, 0, "insertion")
			}
			return js
		},
		Covers: func(tier string) []string { return []string{"C16.checked", "C16.three-pots"} },
		Bounds: func(tier string) []string {
			if tier == "thorough" {
				return []string{"n<=3 contributors: every insertion order, every fold pattern, map order policy 'rotations'", "n=4: every insertion order, every fold pattern (insertion map order)", "n=5: identity insertion order, every fold pattern; n=6: identity insertion order, 13 fold patterns", "contributions: every int64 with 0 <= c < 2^56"}
			}
			return []string{"n<=3 contributors: every insertion order, every fold pattern, map order policy 'rotations'", "n=4: identity insertion order, every fold pattern", "n=5 (nobody / seats 0,2 folded) and n=6 (nobody folded): identity insertion order", "contributions: every int64 with 0 <= c < 2^56"}
		},
		Outside:     []string{"more than 6 contributors; insertion orders other than seat order for n >= 5 (n >= 4 in the quick tier)", "negative contributions or contributions >= 2^56", "map iteration orders outside the policy", "entries of folded seats in Pot.Contributors (not constrained by the statement)"},
		Assumptions: append([]string{"sort.Slice: the toolchain's real algorithm runs on a shadow slice and calls the interpreted less closure for every comparison (symbolic results fork the path)"}, commonAssumptions...),
		Explanation: "pot.LevelList.AddContributor/GetPots executed symbolically from go/ssa on symbolic contributions; the partition/nesting oracle is asserted on every path",
	})

	register(&PropSpec{
		ID:   "C02",
		Pkgs: []string{""},
		Jobs: func(tier string) []sym.Job {
			var js []sym.Job
			add := func(n, folds, sorted int) {
				js = append(js, sym.Job{Pkg: "", Harness: "Harness_C02_Settle", Args: []int{n, folds, sorted}})
			}
			pop := func(x int) int {
				c := 0
				for ; x > 0; x >>= 1 {
					c += x & 1
				}
				return c
			}
			for n := 2; n <= 5; n++ {
				for f := 0; f < (1<<uint(n))-1; f++ {
					switch {
					case n <= 3:
						add(n, f, 0)
					case n == 4 && (tier == "thorough" || pop(f) >= 1):
						add(n, f, 0)
					case n == 5 && (pop(f) >= 3 || tier == "thorough" && pop(f) >= 2):
						add(n, f, 1)
					}
				}
			}
			return js
		},
		Covers: func(tier string) []string { return []string{"C02.settled", "C02.tie", "C02.side-pot"} },
		Bounds: func(tier string) []string {
			if tier == "thorough" {
				return []string{"n<=4 seats: every fold pattern, every ordering of contributions and strengths incl. ties of every multiplicity", "n=5: contributions non-decreasing in seat index, >=2 folded seats", "contributions, wagers, stacks in [0,2^40), strengths in (0,2^40)", "map order: insertion"}
			}
			return []string{"n<=3 seats: every fold pattern; n=4: >=1 folded; n=5: contributions non-decreasing in seat index, >=3 folded", "every ordering of contributions and strengths incl. ties", "contributions, wagers, stacks in [0,2^40), strengths in (0,2^40)", "map order: insertion"}
		},
		Outside:     []string{"more than 5 seats; n=5 without the sortedness assumption; amounts >= 2^40", "settlement reached through real play (covered by the engine step harnesses feeding the same functions)", "PotResult.Winners[].Withdraw is not used as an observable (see DESIGN §4 C02)"},
		Assumptions: append([]string{"non-folded strengths are positive (C03 asserts this of the evaluator)", "sort.Slice on <= 12 elements is the stdlib insertion sort (modelled)"}, commonAssumptions...),
		Explanation: "game.updatePots + game.CalculateGameResults + pot + settlement packages executed symbolically on symbolic contributions/strengths; the layer oracle is written from the rules and asserted through Result.Players[].Changed",
	})

	register(&PropSpec{
		ID:   "C13",
		Pkgs: []string{""},
		Jobs: func(tier string) []sym.Job {
			var js []sym.Job
			maxN, maxAllDealers := 4, 3
			if tier == "thorough" {
				maxN, maxAllDealers = 5, 5
			}
			for n := 2; n <= maxN; n++ {
				for d := 0; d < n; d++ {
					if n > maxAllDealers && d > 0 {
						continue
					}
					for layout := 0; layout <= 2; layout++ {
						if n == 2 && layout == 1 {
							continue
						}
						for ante := 0; ante <= 1; ante++ {
							js = append(js, sym.Job{Pkg: "", Harness: "Harness_C13", Args: []int{n, d, layout, ante}})
						}
					}
				}
			}
			return js
		},
		AssertPrefix: []string{"C13."},
		Covers:       func(tier string) []string { return []string{"C13.blinds-posted", "C13.short-big-blind"} },
		Bounds: func(tier string) []string {
			if tier == "thorough" {
				return []string{"n in 2..5 seats, every dealer seat", "layouts: dealer/sb/bb (heads-up: dealer is sb), dead small blind, dealer-blind stakes", "ante, blinds, dealer blind, bankrolls: every value in [0,2^40) (bankrolls > 0)", "operations: Start, ReadyForAll, PayAnte, PayBlinds on a standard 52-card deck in builder order (shuffle = identity)"}
			}
			return []string{"n in 2..3 seats with every dealer seat, n=4 with dealer at seat 0", "layouts: dealer/sb/bb (heads-up: dealer is sb), dead small blind, dealer-blind stakes", "ante, blinds, dealer blind, bankrolls: every value in [0,2^40) (bankrolls > 0)", "operations: Start, ReadyForAll, PayAnte, PayBlinds on a standard 52-card deck in builder order (shuffle = identity)"}
		},
		Outside:     []string{"more than 5 seats", "amounts >= 2^40", "heads-up with both a small blind and a dealer blind configured (the statement does not say which the dealer posts)", "Player.Pay as an alternative way of posting (not used by the table layer)"},
		Assumptions: append([]string{"math/rand.Shuffle modelled as the identity permutation here (C14 covers shuffling)", "time.Now modelled as an arbitrary int64"}, commonAssumptions...),
		Explanation: "bounded unrolling of the real engine from Start() through the forced bets with all stakes and bankrolls symbolic",
	})

	// ---- engine step harnesses shared by C01 C04 C05 C06 C11 C12 ----
	actJobs := func(tier string) []sym.Job {
		var js []sym.Job
		maxN := 3
		if tier == "thorough" {
			maxN = 4
		}
		for n := 2; n <= maxN; n++ {
			for layout := 0; layout <= 2; layout++ {
				if n == 2 && layout == 1 {
					continue
				}
				if tier != "thorough" && n == 3 && layout != 0 {
					continue // the layout only matters for who acts first (Harness_Ready) and for forced bets (Harness_C13)
				}
				if n == 4 && layout != 0 {
					continue
				}
				for street := 0; street < 4; street++ {
					if tier != "thorough" && n == 3 && (street == 1 || street == 2) {
						continue // quick: preflop and river for n=3
					}
					if n == 4 && (street == 1 || street == 2) {
						continue
					}
					for limit := 0; limit <= 1; limit++ {
						if tier != "thorough" && limit == 1 && n == 3 {
							continue
						}
						if n == 4 && limit == 1 {
							continue
						}
						for cur := 0; cur < n; cur++ {
							for op := 0; op < 8; op++ {
								js = append(js, sym.Job{Pkg: "", Harness: "Harness_Act", Args: []int{n, layout, street, limit, cur, op}})
							}
						}
					}
				}
			}
		}
		if tier != "thorough" {
			// a four-seat slice in the quick tier: flop, standard layout, the chip-moving actions
			for _, a := range [][]int{{0, 3}, {0, 4}, {0, 5}, {3, 5}} {
				js = append(js, sym.Job{Pkg: "", Harness: "Harness_Act", Args: []int{4, 0, 1, 0, a[0], a[1]}})
			}
		}
		// the other wait points: ready (base case of Inv_act), next (street change / settlement), start
		// flowTier: the flow harnesses (ready / next with settlement / start / the C13 unrolling) run the same
		// shapes in both tiers: the full thorough product (every dealer and layout on 3 and 4 seats) ran for
		// more than 80 minutes per property without finishing and is not claimed.
		flowTier := "quick"
		maxFlowN := 3
		for n := 2; n <= maxFlowN; n++ {
			for d := 0; d < n; d++ {
				if flowTier != "thorough" && n == 3 && d == 2 {
					continue
				}
				for layout := 0; layout <= 2; layout++ {
					if n == 2 && layout == 1 {
						continue
					}
					if flowTier != "thorough" && layout == 2 && d > 0 {
						continue
					}
					for street := 0; street < 4; street++ {
						js = append(js, sym.Job{Pkg: "", Harness: "Harness_Ready", Args: []int{n, d, layout, street}})
						if flowTier != "thorough" && n == 3 && (layout != 0 || d > 0) && street == 2 {
							continue
						}
						js = append(js, sym.Job{Pkg: "", Harness: "Harness_Next", Args: []int{n, d, layout, street}})
					}
				}
			}
		}
		for n := 0; n <= 3; n++ {
			for wd := 0; wd <= 1; wd++ {
				for wk := 0; wk <= 1; wk++ {
					js = append(js, sym.Job{Pkg: "", Harness: "Harness_Start", Args: []int{n, wd, wk}})
				}
			}
		}
		// the unrolling from the real initial state through antes and blinds (base case; also carries
		// C01/C04/C06 assertions about the forced bets)
		for n := 2; n <= 3; n++ {
			for layout := 0; layout <= 2; layout++ {
				if n == 2 && layout == 1 {
					continue
				}
				for ante := 0; ante <= 1; ante++ {
					js = append(js, sym.Job{Pkg: "", Harness: "Harness_C13", Args: []int{n, 0, layout, ante}})
				}
			}
		}
		return js
	}
	actBounds := func(tier string) []string {
		b := []string{"unrolling Start / ReadyForAll / PayAnte / PayBlinds from the real initial state with symbolic stakes and bankrolls (n=2,3, dealer at seat 0; all dealers in C13)", "wait points ReadyRequested (every street) + ReadyForAll, RoundClosed (every street) + Next incl. settlement and the closed hand, Start() on symbolic options; every dealer seat (quick: n=3 dealer 0,1)", "wait point: RoundStarted with seat cur to act, every street, every seat to act, every operation of {fold, check, call, allin, bet(x), raise(x), pass, pay(x)} by every seat", "state: every chip account, fold/acted flag, stake and raise size symbolic under Inv_act (I1, I2, turn-structure A/J, >=2 seats alive, >=1 with chips), amounts < 2^40; bet/raise/pay amount: every int64", "layouts: dealer/sb/bb, dead small blind, dealer-blind; limit no / pot"}
		if tier == "thorough" {
			return append(b, "n=2,3: every street, layout, limit, seat to act and operation; n=4: preflop and river, standard layout, no-limit, every seat to act and operation; ready / next / settlement wait points as in the quick tier (n=2 every dealer and layout, n=3 dealer 0,1)")
		}
		return append(b, "n=2: every street, both limits, layouts standard and dealer-blind; n=3: preflop and river, no-limit, standard layout; n=4: flop, standard layout, allin/bet/raise by seat 0 and raise by the last seat")
	}
	actOutside := []string{"more than 4 seats", "chip amounts >= 2^40 in the state (the amount argument itself is unrestricted)", "states violating Inv_act (its inductiveness is part of the check: C05.inv-* assertions; base case: the ready/next harnesses)", "exported engine plumbing (SetCurrentPlayer, BecomeRaiser, Deal, Burn, EmitEvent, LoadState, Resume) is not in the operation alphabet"}
	actCovers := func(tier string) []string {
		return []string{"act.continues", "act.closes", "act.refused-size", "act.amount-moderate", "act.amount-extreme", "ready.betting-opens", "ready.closes-at-once", "next.betting-street", "next.run-out", "next.showdown", "next.last-player-standing", "start.accepted", "start.refused"}
	}
	actAssume := append([]string{"time.Now modelled as an arbitrary int64 (only UpdatedAt depends on it)", "state snapshot/equality for the refusal clauses: deep copy and reflect.DeepEqual-style equality in the executor, JSON equality in native replays"}, commonAssumptions...)
	for _, pr := range []struct{ id, expl string }{
		{"C01", "chip identities after every accepted action from any Inv_act state; published pots add up at closure (settlement clauses: C02 harness, shared assertion ids C01.*)"},
		{"C04", "refusals (other seats, actions not offered, table operations in the wrong phase) leave the state untouched; the turn passes clockwise to exactly one seat"},
		{"C05", "turn-structure invariant is inductive; a round closes only when settled; progress within one lap"},
		{"C06", "every offered action succeeds and leads to a wait point; ranking function decreases"},
		{"C11", "offered list against the table of the statement; effects of each action"},
		{"C12", "raise rule and amount robustness for every int64 amount"},
	} {
		id := pr.id
		// each property runs the harnesses that carry its assertions
		needs := map[string][]string{
			"C01": {"Harness_Act", "Harness_Ready", "Harness_Next", "Harness_C13"},
			"C04": {"Harness_Act", "Harness_Ready", "Harness_Next", "Harness_C13"},
			"C05": {"Harness_Act", "Harness_Ready", "Harness_Next", "Harness_C13"},
			"C06": {"Harness_Act", "Harness_Ready", "Harness_Next", "Harness_Start", "Harness_C13"},
			"C11": {"Harness_Act"},
			"C12": {"Harness_Act"},
		}[id]
		jobsFor := func(tier string) []sym.Job {
			var out []sym.Job
			for _, j := range actJobs(tier) {
				for _, h := range needs {
					if j.Harness == h {
						out = append(out, j)
						break
					}
				}
			}
			return out
		}
		coversFor := func(tier string) []string {
			var out []string
			for _, c := range actCovers(tier) {
				for _, h := range needs {
					pre := map[string]string{"Harness_Act": "act.", "Harness_Ready": "ready.", "Harness_Next": "next.", "Harness_Start": "start."}[h]
					if pre != "" && strings.HasPrefix(c, pre) {
						out = append(out, c)
					}
				}
			}
			return out
		}
		spec := &PropSpec{
			ID: id, Pkgs: []string{""},
			Jobs:         jobsFor,
			AssertPrefix: []string{id + "."},
			Covers:       coversFor,
			Bounds:       actBounds,
			Outside:      actOutside,
			Assumptions:  actAssume,
			Explanation:  "inductive step harness Harness_Act over the real engine code (player.go, game.go, event.go): " + pr.expl,
		}
		register(spec)
	}

	// ---- seat manager: C08 C17 C18 ----
	smJobs := func(tier string) []sym.Job {
		var js []sym.Job
		maxSeats := 4
		if tier == "thorough" {
			maxSeats = 6
		}
		if tier != "thorough" {
			js = append(js, sym.Job{Pkg: "seat_manager", Harness: "Harness_SM_Next", Args: []int{5}})
			// a 6-seat slice (every seat occupied): the smallest table on which KF-C08-LATEJOIN-BEHIND-BB shows
			js = append(js, sym.Job{Pkg: "seat_manager", Harness: "Harness_SM_NextOcc", Args: []int{6, 63}})
		}
		for mx := 2; mx <= maxSeats; mx++ {
			js = append(js, sym.Job{Pkg: "seat_manager", Harness: "Harness_SM_Next", Args: []int{mx}})
			for op := 0; op < 5; op++ {
				if mx > 5 && op == 1 {
					continue
				}
				js = append(js, sym.Job{Pkg: "seat_manager", Harness: "Harness_SM_Op", Args: []int{mx, op}})
			}
		}
		k := 4
		if tier == "thorough" {
			k = 5
		}
		js = append(js, sym.Job{Pkg: "seat_manager", Harness: "Harness_SM_Unroll", Args: []int{3, k}})
		js = append(js, sym.Job{Pkg: "seat_manager", Harness: "Harness_SM_Unroll", Args: []int{2, k + 1}})
		return js
	}
	smBounds := func(tier string) []string {
		mx := "2..4 (Next also on 5 seats, and on 6 seats with every seat occupied)"
		if tier == "thorough" {
			mx = "2..6"
		}
		return []string{"table sizes " + mx + "; every occupancy pattern, dealer and big-blind seat; IsActive / IsReserved of every seat symbolic under Inv_SM (inactive seats only strictly between dealer and big blind; dealer != big blind)", "operations: Next, Join(seat), Join(-1), Seat, Reserve, Leave with unconstrained integer arguments, one step from every such state; Join(-1): rand.Intn arbitrary, map order 'rotations'", "unrolling from NewSeatManager: 3 seats x 4 ops (thorough 5), 2 seats x 5 ops (thorough 6) over {Join, Seat, Reserve, Leave, Next}"}
	}
	smOutside := []string{"tables of more than 6 seats", "true goroutine interleavings and the Go memory model: the concurrency clause is decided by the lock-coverage obligation (every access to seat-manager state inside Join/Leave/Seat/Reserve/Next happens while sm.mu is write-held, so racing calls are atomic and equal some sequential order)", "unlocked accessors (Dealer, SetDealer, ApplyStates, ...) are not in the property's alphabet", "states violating Inv_SM (inductiveness is asserted: C08.inv-*)"}
	smAssume := append([]string{"sync.RWMutex modelled by ghost lock state (Lock on a held mutex = self-deadlock outcome)", "math/rand.Intn(n) returns an arbitrary value in [0,n)"}, commonAssumptions...)
	smCovers := func(tier string) []string {
		return []string{"sm.button-moves", "sm.heads-up", "sm.three-or-more", "sm.late-joiner-in", "sm.late-joiner-waits", "sm.next-refused", "sm.join-ok", "sm.join-refused", "sm.join-any-ok", "sm.join-any-full", "sm.leave-ok", "sm.leave-refused", "sm.arg-far", "sm.unroll-next-ok"}
	}
	for _, pr := range []struct{ id, expl string }{
		{"C08", "positions after a successful Next() on the post-state; late-joiner clause by one inductive step with a ghost pending seat"},
		{"C17", "button movement and the refusal clause for Next() from every Inv_SM state"},
		{"C18", "double booking, counts, refusals, no panic for unconstrained integer arguments, lock coverage"},
	} {
		register(&PropSpec{ID: pr.id, Pkgs: []string{"seat_manager"}, Jobs: smJobs, AssertPrefix: []string{pr.id + "."}, Covers: smCovers, Bounds: smBounds, Outside: smOutside, Assumptions: smAssume,
			Explanation: "seat_manager.SeatManager executed symbolically one operation at a time from arbitrary invariant-satisfying states: " + pr.expl})
	}

	// ---- regulator: C09 C19 C20 ----
	regJobs := func(tier string) []sym.Job {
		var js []sym.Job
		add := func(n, late, k, sweeps int) {
			js = append(js, sym.Job{Pkg: "regulator", Harness: "Harness_Reg_Unroll", Args: []int{n, late, k, sweeps}})
		}
		early := 5
		if tier == "thorough" {
			early = 8
		}
		for n1 := 0; n1 <= early; n1++ {
			for _, n2 := range []int{0, 3} {
				js = append(js, sym.Job{Pkg: "regulator", Harness: "Harness_Reg_EarlyOps", Args: []int{n1, n2}})
			}
		}
		mix := func(n, l1, l2, sweeps int) {
			js = append(js, sym.Job{Pkg: "regulator", Harness: "Harness_Reg_Mix", Args: []int{n, l1, l2, sweeps}})
		}
		if tier == "thorough" {
			for n := 2; n <= 10; n++ {
				for _, l1 := range []int{1, 2, 5} {
					for _, l2 := range []int{1, 3} {
						mix(n, l1, l2, 2)
					}
				}
			}
		} else {
			for _, n := range []int{4, 6, 8} {
				mix(n, 2, 3, 2)
				mix(n, 5, 3, 2)
			}
		}
		if tier == "thorough" {
			for n := 0; n <= 18; n++ {
				add(n, 0, 1, 3)
			}
			for n := 2; n <= 12; n++ {
				add(n, 2, 2, 3)
			}
			for _, n := range []int{6, 9} {
				add(n, 3, 3, 0)
			}
		} else {
			for n := 0; n <= 13; n++ {
				add(n, 0, 1, 2)
			}
			for _, n := range []int{5, 7, 10} {
				add(n, 2, 2, 2)
			}
		}
		return js
	}
	regBounds := func(tier string) []string {
		if tier == "thorough" {
			return []string{"settings: every (max, min) with 2 <= min <= max <= 10 (symbolic)", "histories from NewRegulator: N <= 18 registrants in one batch before the start (N <= 12 with 2 late registrants and 2 syncs; N = 6, 9 with 3 late registrants and 3 syncs), start, 0/2/3 late registrants, up to 3 table syncs with 0..2 eliminations on any live table, optional registration deadline, then 3 sweeps without eliminations in every rotation order followed by one sweep that must be idle", "operations before the start: two registration batches (0..8, then 0 or 3), releases with nobody to hand back, a sync naming an unknown table; then the start and one sweep", "registrations interleaved with a sync: n registrants (quick 4,6,8; thorough 2..10), start, l1 more (quick 2,5; thorough 1,2,5), one sync of any table with 0..4 eliminated, l2 more (quick 3; thorough 1,3), sweeps", "after every sync: a sync (1 eliminated) naming an unknown table and naming every table broken earlier must be refused and change nothing", "callbacks never fail; map order: insertion"}
		}
		return []string{"settings: every (max, min) with 2 <= min <= max <= 10 (symbolic)", "histories from NewRegulator: N <= 13 registrants in one batch before the start, start, 0/2 late registrants, up to 2 table syncs with 0..2 eliminations on any live table, optional registration deadline, then 2 sweeps without eliminations in every rotation order followed by one sweep that must be idle", "operations before the start: two registration batches (0..5, then 0 or 3), releases with nobody to hand back, a sync naming an unknown table; then the start and one sweep", "registrations interleaved with a sync: n registrants (quick 4,6,8; thorough 2..10), start, l1 more (quick 2,5; thorough 1,2,5), one sync of any table with 0..4 eliminated, l2 more (quick 3; thorough 1,3), sweeps", "after every sync: a sync (1 eliminated) naming an unknown table and naming every table broken earlier must be refused and change nothing", "callbacks never fail; map order: insertion"}
	}
	regOutside := []string{"max players per table above 10; more registrants / longer histories than stated; more than two registration batches before the start; releases of players the regulator did not ask for", "failing callbacks; concurrent calls (the regulator's mutex is not the subject)", "Go map iteration orders other than insertion order (the regulator ranges over its table map)", "C20 is a bounded claim: states needing more sweeps than K are counterexamples only within the explored histories"}
	regAssume := append([]string{"float64 arithmetic of the water-level formulas lowered to exact integer arithmetic under range obligations |x| < 2^26 (engine/sym/float.go); divisions by small symbolic divisors are case-split over constants", "tables follow instructions: released / received / broken exactly as SyncState says (the protocol of the repository's own tests)"}, commonAssumptions...)
	regCovers := func(tier string) []string {
		return []string{"reg.started-with-tables", "reg.release", "reg.receive", "reg.break", "reg.settled", "reg.early-ops-then-tables", "reg.mix-sync"}
	}
	for _, pr := range []struct{ id, expl string }{
		{"C09", "identity (every alive player in exactly one place, never handed out twice) and counter clauses after every operation; refusals"},
		{"C19", "capacity of every requestTableFn / assignPlayersFn / sync hand-out, no table before start or before min registrants, initial tables get at least min"},
		{"C20", "K sweeps without eliminations reach a state where a further sweep is idle; a broken table hands back all players"},
	} {
		register(&PropSpec{ID: pr.id, Pkgs: []string{"regulator"}, Jobs: regJobs, AssertPrefix: []string{pr.id + "."}, Covers: regCovers, Bounds: regBounds, Outside: regOutside, Assumptions: regAssume,
			Explanation: "regulator executed symbolically from NewRegulator with symbolic (max, min): " + pr.expl})
	}

	register(&PropSpec{
		ID: "C15", Pkgs: []string{""},
		Jobs: func(tier string) []sym.Job {
			var js []sym.Job
			maxN := 3
			if tier == "thorough" {
				maxN = 6
			}
			for n := 1; n <= maxN; n++ {
				for ev := 0; ev < 6; ev++ {
					for obs := 0; obs <= 1; obs++ {
						js = append(js, sym.Job{Pkg: "", Harness: "Harness_C15", Args: []int{n, ev, obs}})
					}
				}
			}
			return js
		},
		AssertPrefix: []string{"C15."},
		Covers:       func(tier string) []string { return []string{"C15.own", "C15.hidden-before-close", "C15.folded-hidden"} },
		Bounds: func(tier string) []string {
			n := "1..3"
			if tier == "thorough" {
				n = "1..6"
			}
			return []string{n + " seats; every card a symbolic 2-byte string; fold flags and all numeric fields symbolic; viewer index any int64 (also out of range) and the observer; current event GameClosed and five other events (the code distinguishes only GameClosed)", "every such state, reachable or not"}
		},
		Outside:     []string{"more than 6 seats", "player records whose Idx differs from their slice position", "the transport of the prepared state (table layer)"},
		Assumptions: append([]string{"deep equality of the prepared state with the expected state is decided as one solver obligation (JSON equality in native replays)"}, commonAssumptions...),
		Explanation: "GameState.AsPlayer / AsObserver executed symbolically on an arbitrary state; result compared with the snapshot transformed by the statement's hiding rules",
	})

	register(&PropSpec{
		ID: "C14", Pkgs: []string{""},
		Jobs: func(tier string) []sym.Job {
			var js []sym.Job
			cut := map[string]string{"(*github.com/weedbox/pokerface.game).UpdateCombinationOfAllPlayers": "zero"}
			maxN := 3
			if tier == "thorough" {
				maxN = 6
			}
			for n := 2; n <= maxN; n++ {
				for _, hole := range []int{2, 4} {
					for sc := 0; sc < 4; sc++ {
						for _, slack := range []int{0, 2} {
							if slack == 0 && tier != "thorough" && sc != 0 && sc != 1 {
								continue
							}
							js = append(js, sym.Job{Pkg: "", Harness: "Harness_C14_Hand", Args: []int{n, hole, sc, slack}, Cfg: sym.JobConfig{Stubs: cut}})
						}
					}
				}
			}
			js = append(js, sym.Job{Pkg: "", Harness: "Harness_C14_Hand", Args: []int{2, 2, 0, 2}, Cfg: sym.JobConfig{Stubs: cut, ShuffleSwaps: 1}})
			js = append(js, sym.Job{Pkg: "", Harness: "Harness_C14_Shuffle", Args: []int{4}, Cfg: sym.JobConfig{ShuffleSwaps: 2}})
			js = append(js, sym.Job{Pkg: "", Harness: "Harness_C14_Shuffle", Args: []int{6}, Cfg: sym.JobConfig{ShuffleSwaps: 1}})
			if tier == "thorough" {
				js = append(js, sym.Job{Pkg: "", Harness: "Harness_C14_Shuffle", Args: []int{4}, Cfg: sym.JobConfig{ShuffleSwaps: 3}})
				js = append(js, sym.Job{Pkg: "", Harness: "Harness_C14_Hand", Args: []int{3, 2, 1, 2}, Cfg: sym.JobConfig{Stubs: cut, ShuffleSwaps: 1}})
			}
			js = append(js, sym.Job{Pkg: "", Harness: "Harness_C14_Decks"})
			// dealing steps from arbitrary closed-round states (burn/board from the top of the deck, hole cards untouched)
			for n := 2; n <= 3; n++ {
				for street := 0; street < 4; street++ {
					js = append(js, sym.Job{Pkg: "", Harness: "Harness_Next", Args: []int{n, 0, 0, street}})
				}
			}
			return js
		},
		AssertPrefix: []string{"C14."},
		Covers:       func(tier string) []string { return []string{"C14.full-board", "C14.early-ending", "C14.shuffled", "C14.decks-built"} },
		Bounds: func(tier string) []string {
			n := "2..3"
			if tier == "thorough" {
				n = "2..6"
			}
			return []string{"whole hands on " + n + " seats, 2 hole cards and 4-with-2-required, decks of exactly n*hole+8 (exact fit) and n*hole+10 opaque symbolic 2-byte cards (every content, duplicates included), four scripted histories: check/call to showdown, all-in run-out, everybody folds on the flop, fold before the flop; I6 asserted after every operation", "shuffle: rand.Shuffle modelled as k <= 2 (thorough 3) arbitrary in-range swaps on 4..6 symbolic cards; one-swap shuffle followed by a whole hand", "deck builders executed concretely", "dealing steps of Next() from arbitrary closed-round states (Harness_Next)"}
		},
		Outside:     []string{"the quality of the permutation produced by math/rand (uniformity) and the real math/rand implementation", "hand evaluation is cut out of the whole-hand harness (UpdateCombinationOfAllPlayers replaced by a no-op; that it writes nothing but Combination is C10's obligation)", "decks shorter than the hand needs (Deal indexes past the end: outside the claim)", "amount-dependent histories beyond the four scripts (chips do not influence dealing; the step harness Harness_Next covers dealing from arbitrary chip states)"},
		Assumptions: append([]string{"math/rand.Shuffle(n, swap) = a finite sequence of swap(i, j) calls with in-range i, j (its documented contract)"}, commonAssumptions...),
		Explanation: "game.Deal/Burn/InitializeRound/ShuffleCards and the deck builders executed symbolically on opaque symbolic cards",
	})

	register(&PropSpec{
		ID: "C10", Pkgs: []string{""},
		Jobs: func(tier string) []sym.Job {
			var js []sym.Job
			cfg := sym.JobConfig{Stubs: map[string]string{"github.com/weedbox/pokerface/combination.CalculatePower": "vStubCalculatePower"}, SortFrontOnlyAbove: 1, MaxSteps: 20000000}
			shapes := [][]int{{2, 0, 3, 2}, {2, 0, 4, 1}, {2, 0, 5, 1}, {4, 2, 3, 1}, {4, 2, 4, 1}}
			if tier == "thorough" {
				shapes = append(shapes, []int{4, 2, 5, 1}, []int{2, 0, 4, 2}, []int{2, 0, 3, 3}, []int{4, 2, 3, 2})
			}
			for _, a := range shapes {
				js = append(js, sym.Job{Pkg: "", Harness: "Harness_C10", Args: a, Cfg: cfg})
			}
			return js
		},
		AssertPrefix: []string{"C10."},
		Covers:       func(tier string) []string { return []string{"C10.evaluated"} },
		Bounds: func(tier string) []string {
			b := []string{"2 hole cards (any 5 of hole+board) on flop/turn/river and 4 hole cards with exactly 2 required on flop/turn (thorough: river too); concrete distinct cards, the score and category of every selection symbolic (uninterpreted function of the card set), every ordering and tie of scores", "sort.Slice modelled by its contract restricted to the first element (any maximal element may come first); GetAllPowersByPlayer's only caller reads index 0", "1-2 seats (thorough up to 3) for the frame condition"}
			return b
		},
		Outside:     []string{"the evaluator itself (CalculatePower): C03; that it is order-independent and returns a permutation of its input is asserted there", "that the showdown compares exactly Combination.Power is decided by the settlement harness (Harness_Next / C02 oracle reads the same field)", "boards of fewer than 3 cards (no community cards: the statement does not apply)"},
		Assumptions: append([]string{"CalculatePower replaced by an uninterpreted function of the selection (cut; DESIGN §4 C10)", "the contract of sort.Slice (result sorted w.r.t. less) is trusted for the first element"}, commonAssumptions...),
		Explanation: "GetAllPossibleCombinations / GetAllPowersByPlayer / CalculatePlayerPower / UpdateCombinationOfAllPlayers executed symbolically with symbolic scores; admissible selections enumerated independently from the rules",
	})

	register(&PropSpec{
		ID: "C07", Pkgs: []string{"table"},
		Jobs: func(tier string) []sym.Job {
			var js []sym.Job
			maxN := 3
			if tier == "thorough" {
				maxN = 4
			}
			for n := 2; n <= maxN; n++ {
				for street := 0; street < 4; street++ {
					if tier != "thorough" && n == 3 && (street == 1 || street == 2) {
						continue
					}
					for cur := 0; cur < n; cur++ {
						if tier != "thorough" && n == 3 && cur == 2 {
							continue
						}
						for op := 0; op < 10; op++ {
							js = append(js, sym.Job{Pkg: "table", Harness: "Harness_C07", Args: []int{n, street, 0, cur, op}})
						}
					}
					for _, op := range []int{8, 9, 2, 11} {
						js = append(js, sym.Job{Pkg: "table", Harness: "Harness_C07", Args: []int{n, street, 1, 0, op}})
					}
					for _, op := range []int{9, 8, 0, 10} {
						js = append(js, sym.Job{Pkg: "table", Harness: "Harness_C07", Args: []int{n, street, 2, 0, op}})
					}
				}
			}
			// two consecutive operations: state kept outside the serialized state between calls
			twoN, ops1, ops2 := 2, []int{1, 2, 3, 4, 5}, []int{2, 3, 4, 5}
			streets := []int{1}
			if tier == "thorough" {
				twoN, ops1, ops2 = 3, []int{0, 1, 2, 3, 4, 5, 6}, []int{0, 1, 2, 3, 4, 5, 6}
				streets = []int{0, 1, 3}
			}
			for n := 2; n <= twoN; n++ {
				for _, street := range streets {
					for cur := 0; cur < n; cur++ {
						for _, o1 := range ops1 {
							for _, o2 := range ops2 {
								js = append(js, sym.Job{Pkg: "table", Harness: "Harness_C07_Two", Args: []int{n, street, cur, o1, o2}})
							}
						}
					}
				}
			}
			return js
		},
		AssertPrefix: []string{"C07."},
		Covers:       func(tier string) []string { return []string{"C07.accepted", "C07.refused", "C07.two-accepted"} },
		Bounds: func(tier string) []string {
			n := "n=2 every street, n=3 preflop and river (seats 0,1 to act)"
			if tier == "thorough" {
				n = "n in 2..4, every street, every seat to act"
			}
			return []string{n, "two consecutive betting actions (one in-memory object vs two backend hops): heads-up on the flop, first action in {check, call, allin, bet, raise}, second in {call, allin, bet, raise} (thorough: n<=3, preflop/flop/river, every action pair)", "wait points RoundStarted (every action incl. bet/raise/pay with |amount| < 2^42), ReadyRequested (ReadyForAll), RoundClosed (Next incl. dealing, evaluation on the concrete deck and settlement), plus operations in the wrong phase", "chip accounts, flags, stakes symbolic (< 2^40) as in the engine step harnesses; in-memory copy carries the unserialized Pot.Levels"}
		},
		Outside:     []string{"the reflection-based implementation of encoding/json itself (modelled by its documented contract from the current struct tags; validated by native replays, which run the real encoding/json)", "AnteRequested / BlindsRequested wait points (covered for the in-memory engine by C13; the backend wrappers have the same shape)", "the table layer above the backend (goroutines, timers)"},
		Assumptions: append([]string{"encoding/json Marshal+Unmarshal = tag-driven structural clone (engine/sym/models_json.go)", "time.Now arbitrary; UpdatedAt excluded from the comparison as the statement says"}, commonAssumptions...),
		Explanation: "relational step harness: in-memory game vs. table.NativeBackend (real cloneState/NewGameFromState/op/cloneState) from the same symbolic wait-point state",
	})

	register(&PropSpec{
		ID: "C03", Pkgs: []string{"combination"},
		Jobs: func(tier string) []sym.Job {
			var js []sym.Job
			runs := [][]int{{0, 0}}
			if tier == "thorough" {
				runs = [][]int{{0, 0}, {1, 1}, {1, 0}}
			}
			for _, r := range runs {
				sorted := 1
				if tier == "thorough" {
					sorted = 2
				}
				js = append(js, sym.Job{Pkg: "combination", Harness: "Harness_C03_Factor", Args: []int{r[0], r[1], sorted}, Cfg: sym.JobConfig{MaxSteps: 3000000}})
				for i1 := 0; i1 < 9; i1++ {
					for i2 := i1; i2 < 9; i2++ {
						js = append(js, sym.Job{Pkg: "combination", Harness: "Harness_C03_Mono", Args: []int{r[0], r[1], i1, i2}, Cfg: sym.JobConfig{MaxSteps: 3000000}})
					}
				}
			}
			return js
		},
		AssertPrefix: []string{"C03."},
		Covers:       func(tier string) []string { return []string{"C03.factor", "C03.mono", "C03.wheel"} },
		Bounds: func(tier string) []string {
			order := "given in non-increasing rank order or in that order with any one transposition"
			if tier != "thorough" {
				order = "given in non-increasing rank order"
			}
			b := []string{"standard ranking table on the 52-card deck: step 1 (factorisation) for every hand of five different cards " + order + "; step 2 (monotonicity) for every ordered pair of categories and every pair of valid tuples", "no bound inside the domain: every hand and, through the decomposition, every pair of hands is covered"}
			if tier == "thorough" {
				b = append(b, "also the short-deck table on the 36-card deck (A-9-8-7-6 excluded: its class is left open by the statement) and the short-deck table on the 52-card deck")
			}
			return b
		},
		Outside:     []string{"card strings other than the 52 valid ones; hands with repeated cards", "input orders further from rank order than one transposition: the unrestricted-order query (120 orders x the evaluator's sort) did not finish within the 3600 s job limit and is not claimed; that CalculatePower sorts its input first is visible in the code and exercised by the transposition bound", "quick tier: the short-deck table (thorough tier)", "the float arithmetic of CalculatePowerScore outside the proven exact range (range obligations are discharged on every path)"},
		Assumptions: append([]string{"math.Pow(13, k) evaluated concretely for concrete k; float64(rank-2)*13^k lowered to exact integer arithmetic under a discharged range obligation", "sort.Slice: the toolchain's real algorithm drives the interpreted less"}, commonAssumptions...),
		Explanation: "combination.CalculatePower executed symbolically on symbolic cards; pairwise order decomposed into factorisation through a reference tuple written from the rules plus monotonicity on canonical hands",
	})
}

package main

import (
	"verif/engine/sym"
)

// PropSpec: how one property is decided (harness jobs per tier, bounds, what lies outside them).
type PropSpec struct {
	ID          string
	Pkgs        []string
	Jobs        func(tier string) []sym.Job
	Covers      func(tier string) []string
	Bounds      func(tier string) []string
	Outside     []string
	Assumptions []string
	Explanation string
}

var props = map[string]*PropSpec{}

func register(p *PropSpec) { props[p.ID] = p }

func fact(n int) int {
	r := 1
	for i := 2; i <= n; i++ {
		r *= i
	}
	return r
}

var commonAssumptions = []string{
	"go/ssa (golang.org/x/tools v0.29.0) faithfully represents the Go source; the gosym executor's instruction semantics (validated per run by native replay of path witnesses)",
	"z3 4.8.12 verdicts (unknown/error verdicts are reported as inconclusive, never as success)",
	"Go map iteration order is explored according to the stated policy only",
}

func init() {
	register(&PropSpec{
		ID:   "C16",
		Pkgs: []string{"pot"},
		Jobs: func(tier string) []sym.Job {
			var js []sym.Job
			add := func(n, order, folds int, mo string) {
				js = append(js, sym.Job{Pkg: "pot", Harness: "Harness_C16", Args: []int{n, order, folds}, Cfg: sym.JobConfig{MapOrder: mo}})
			}
			maxAll := 3
			for n := 1; n <= maxAll; n++ {
				for o := 0; o < fact(n); o++ {
					for f := 0; f < 1<<uint(n); f++ {
						add(n, o, f, "rotations")
					}
				}
			}
			if tier == "thorough" {
				for o := 0; o < 24; o++ {
					for f := 0; f < 16; f++ {
						add(4, o, f, "insertion")
					}
				}
				for f := 0; f < 32; f++ {
					add(5, 0, f, "insertion")
				}
			} else {
				for f := 0; f < 16; f++ {
					add(4, 0, f, "insertion")
				}
			}
			return js
		},
		Covers: func(tier string) []string { return []string{"C16.checked", "C16.three-pots"} },
		Bounds: func(tier string) []string {
			if tier == "thorough" {
				return []string{"n<=3 contributors: every insertion order, every fold pattern, map order policy 'rotations'", "n=4: every insertion order, every fold pattern (insertion map order)", "n=5: identity insertion order, every fold pattern", "contributions: every int64 with 0 <= c < 2^56"}
			}
			return []string{"n<=3 contributors: every insertion order, every fold pattern, map order policy 'rotations'", "n=4: identity insertion order, every fold pattern", "contributions: every int64 with 0 <= c < 2^56"}
		},
		Outside:     []string{"more than 5 contributors", "negative contributions or contributions >= 2^56", "map iteration orders outside the policy", "entries of folded seats in Pot.Contributors (not constrained by the statement)"},
		Assumptions: append([]string{"sort.Slice on <= 12 elements is the insertion sort of go1.19+ (modelled, calls the real less closure)"}, commonAssumptions...),
		Explanation: "pot.LevelList.AddContributor/GetPots executed symbolically from go/ssa on symbolic contributions; the partition/nesting oracle is asserted on every path",
	})
}

package main

import (
	"encoding/json"
	"fmt"
	"os"
	"path/filepath"
	"sort"

	"verif/engine/sym"
)

var solverDescription = "z3 4.8.12 (z3 -in, incremental; one bit-vector and one integer-mode process per worker)"

type Coverage struct {
	States           int                      `json:"states"`
	Transitions      int                      `json:"transitions"`
	TracesValidated  int                      `json:"traces_validated_against_impl"`
	Samples          []map[string]interface{} `json:"samples"`
	Exhaustive       bool                     `json:"exhaustive"`
	Explanation      string                   `json:"explanation"`
	Rule             string                   `json:"rule"`
	Jobs             int                      `json:"jobs"`
	Shapes           []string                 `json:"shapes"`
	FunctionsEncoded []string                 `json:"functions_encoded"`
	ModelsUsed       []string                 `json:"models_used"`
	Bounds           []string                 `json:"bounds"`
	OutsideBounds    []string                 `json:"outside_bounds"`
	Queries          map[string]int           `json:"queries"`
	SolverS          float64                  `json:"solver_s"`
	Solver           string                   `json:"solver"`
	PathsInfeasible  int                      `json:"paths_pruned_infeasible"`
	Merges           int                      `json:"if_conversions"`
	Forks            int                      `json:"forks"`
	Steps            int64                    `json:"ssa_instructions_executed"`
	AssertionsChecked int                     `json:"assertion_obligations"`
	PanicObligations int                      `json:"panic_obligations"`
	CoverPoints      map[string]bool          `json:"cover_points"`
	ObservedCompared int                      `json:"observed_values_compared_native"`
	Inconclusive     map[string]int           `json:"inconclusive"`
	MapOrderPolicy   string                   `json:"map_order_policy"`
}

type Evidence struct {
	PropertyID  string   `json:"property_id"`
	Tier        string   `json:"tier"`
	Seed        int      `json:"seed"`
	Level       string   `json:"level"`
	Coverage    Coverage `json:"coverage"`
	Assumptions []string `json:"assumptions"`
	WallS       float64  `json:"wall_s"`
	Violations  int      `json:"violations"`
	KnownSeen   []string `json:"known_findings_seen"`

	coverSeen map[string]bool
	fnSet     map[string]bool
	modelSet  map[string]bool
	shapeSet  map[string]bool
}

func newEvidence(id, tier string, seed int, spec *PropSpec) *Evidence {
	ev := &Evidence{PropertyID: id, Tier: tier, Seed: seed, Level: "model_checking",
		coverSeen: map[string]bool{}, fnSet: map[string]bool{}, modelSet: map[string]bool{}, shapeSet: map[string]bool{}}
	ev.Coverage.Queries = map[string]int{}
	ev.Coverage.CoverPoints = map[string]bool{}
	ev.Coverage.Inconclusive = map[string]int{}
	ev.Coverage.Bounds = spec.Bounds(tier)
	ev.Coverage.OutsideBounds = spec.Outside
	ev.Coverage.Rule = "states = completed symbolic paths (each covers every value of the symbolic inputs that drives execution down it); transitions = solver-decided obligations (branch feasibility, panic obligations, assertions); samples = solver witnesses of completed paths"
	ev.Coverage.Explanation = spec.Explanation
	ev.Coverage.Solver = solverDescription
	ev.Assumptions = append([]string{}, spec.Assumptions...)
	ev.KnownSeen = []string{}
	return ev
}

func (ev *Evidence) addJob(j sym.Job, r sym.JobResult) {
	c := &ev.Coverage
	c.Jobs++
	c.States += r.Stats.Paths - r.Stats.Infeasible
	c.PathsInfeasible += r.Stats.Infeasible
	c.Transitions += r.Solver.Queries + r.IntSolver.Queries
	c.Queries["sat"] += r.Solver.Sat + r.IntSolver.Sat
	c.Queries["unsat"] += r.Solver.Unsat + r.IntSolver.Unsat
	c.Queries["unknown"] += r.Solver.Unknown + r.IntSolver.Unknown
	c.Queries["error"] += r.Solver.Errors + r.IntSolver.Errors
	c.Queries["bitvector_encoding"] += r.Solver.Queries
	c.Queries["integer_encoding_overflow_free"] += r.IntSolver.Queries
	c.SolverS += r.IntSolver.Seconds
	c.Queries["answered_from_cache"] += r.Stats.CacheHits
	c.SolverS += r.Solver.Seconds
	c.Merges += r.Stats.Merges
	c.Forks += r.Stats.Forks
	c.Steps += r.Stats.Steps
	c.AssertionsChecked += r.Stats.Asserts
	c.PanicObligations += r.Stats.Obligations
	for k, n := range r.Inconclusive {
		c.Inconclusive[k] += n
	}
	for _, f := range r.Functions {
		ev.fnSet[f] = true
	}
	for _, f := range r.Models {
		ev.modelSet[f] = true
	}
	for k := range r.Covers {
		ev.coverSeen[k] = true
		c.CoverPoints[k] = true
	}
	ev.shapeSet[fmt.Sprintf("%s%v", j.Harness, j.Args)] = true
	if j.Cfg.MapOrder != "" {
		c.MapOrderPolicy = j.Cfg.MapOrder
	}
	for _, s := range r.Samples {
		if len(c.Samples) < 8 {
			c.Samples = append(c.Samples, map[string]interface{}{"harness": s.Harness, "args": s.Args, "inputs": s.Inputs, "choices": s.Choices, "observed": s.Observed})
		}
	}
}

func (ev *Evidence) finish() {
	c := &ev.Coverage
	for f := range ev.fnSet {
		c.FunctionsEncoded = append(c.FunctionsEncoded, f)
	}
	sort.Strings(c.FunctionsEncoded)
	for f := range ev.modelSet {
		c.ModelsUsed = append(c.ModelsUsed, f)
	}
	sort.Strings(c.ModelsUsed)
	for s := range ev.shapeSet {
		c.Shapes = append(c.Shapes, s)
	}
	sort.Strings(c.Shapes)
	if len(c.Shapes) > 400 {
		n := len(c.Shapes)
		c.Shapes = append(c.Shapes[:400], fmt.Sprintf("... and %d more", n-400))
	}
	if c.MapOrderPolicy == "" {
		c.MapOrderPolicy = "insertion"
	}
	if len(c.Samples) == 0 {
		c.Samples = []map[string]interface{}{}
	}
	// within the stated bounds every path was explored unless something was inconclusive
	c.Exhaustive = len(c.Inconclusive) == 0 && c.Queries["unknown"] == 0 && c.Queries["error"] == 0
}

func (ev *Evidence) write() {
	dir := evidenceDir
	os.MkdirAll(dir, 0o755)
	data, _ := json.MarshalIndent(ev, "", " ")
	os.WriteFile(filepath.Join(dir, ev.PropertyID+".json"), data, 0o644)
}

package main

import (
	"crypto/sha1"
	"encoding/json"
	"flag"
	"fmt"
	"os"
	"os/exec"
	"path/filepath"
	"regexp"
	"sort"
	"strconv"
	"strings"
	"sync"
	"time"

	"verif/engine/sym"
)

const verifDir = "/verif"

var evidenceDir = filepath.Join(verifDir, "evidence")
var replayDir = filepath.Join(verifDir, "replays")

type KnownFinding struct {
	ID          string `json:"id"`
	Property    string `json:"property"`
	Status      string `json:"status"` // "open" or "fixed"
	Assertion   string `json:"assertion"`
	Region      string `json:"region"`
	Description string `json:"description"`
	Commit      string `json:"commit,omitempty"`
}

type KnownFile struct {
	Findings []KnownFinding `json:"findings"`
	Fixed    []string       `json:"fixed"`
}

func loadKnown() (map[string]bool, map[string]KnownFinding) {
	open := map[string]bool{}
	byID := map[string]KnownFinding{}
	data, err := os.ReadFile(filepath.Join(verifDir, "known_findings.json"))
	if err != nil {
		return open, byID
	}
	var kf KnownFile
	if err := json.Unmarshal(data, &kf); err != nil {
		fmt.Fprintln(os.Stderr, "known_findings.json:", err)
		os.Exit(2)
	}
	for _, f := range kf.Findings {
		byID[f.ID] = f
		if f.Status == "open" {
			open[f.ID] = true
		}
	}
	return open, byID
}

type replayVector struct {
	Harness string            `json:"harness"`
	Pkg     string            `json:"pkg"`
	Args    []int             `json:"args"`
	Values  map[string]uint64 `json:"values"`
	Choices []int             `json:"choices"`
	Prefixes  []string        `json:"prefixes,omitempty"`
	Stubs     map[string]string `json:"stubs,omitempty"`
	KnownOpen []string        `json:"known_open,omitempty"`
	Expect  struct {
		Kind string `json:"kind"`
		ID   string `json:"id"`
		Msg  string `json:"msg"`
	} `json:"expect"`
	Property string `json:"property"`
	Known    string `json:"known,omitempty"`
	Observed map[string]uint64 `json:"observed,omitempty"`
}

type replayResult struct {
	File          string            `json:"file"`
	Failed        []string          `json:"failed"`
	Panic         string            `json:"panic"`
	AssumeFailed  bool              `json:"assume_failed"`
	Observed      map[string]uint64 `json:"observed"`
	Covered       []string          `json:"covered"`
}

var harnessRe = regexp.MustCompile(`(?m)^func (Harness_\w+)\(([^)]*)\)`)

// nativeOverlay writes the overlay json for `go test -overlay` and returns its path.
func nativeOverlay(workDir string, stubs map[string]string) (string, error) {
	hdir := filepath.Join(verifDir, "harness")
	replace := map[string]string{}
	type pk struct {
		rel   string
		names []string
		arity []int
	}
	pkgs := map[string]*pk{}
	err := filepath.Walk(hdir, func(path string, info os.FileInfo, err error) error {
		if err != nil {
			return nil
		}
		if info.IsDir() {
			if strings.HasPrefix(info.Name(), "_") {
				return filepath.SkipDir
			}
			return nil
		}
		if !strings.HasSuffix(path, ".go") || strings.HasSuffix(path, "_symonly.go") {
			return nil
		}
		rel, _ := filepath.Rel(hdir, filepath.Dir(path))
		if rel == "root" {
			rel = ""
		}
		replace[filepath.Join(repoRoot, rel, filepath.Base(path))] = path
		p := pkgs[rel]
		if p == nil {
			p = &pk{rel: rel}
			pkgs[rel] = p
		}
		data, _ := os.ReadFile(path)
		for _, m := range harnessRe.FindAllStringSubmatch(string(data), -1) {
			n := 0
			if strings.TrimSpace(m[2]) != "" {
				// count parameters: names separated by commas (all are int)
				n = len(strings.Split(m[2], ","))
			}
			p.names = append(p.names, m[1])
			p.arity = append(p.arity, n)
		}
		return nil
	})
	if err != nil {
		return "", err
	}
	tdata, err := os.ReadFile(filepath.Join(hdir, "_api", "api_native.go.tmpl"))
	if err != nil {
		return "", err
	}
	for rel, p := range pkgs {
		name := "pokerface"
		if rel != "" {
			name = filepath.Base(rel)
		}
		d := filepath.Join(workDir, "gen", name)
		os.MkdirAll(d, 0o755)
		api := filepath.Join(d, "zz_verif_api.go")
		os.WriteFile(api, []byte(strings.ReplaceAll(string(tdata), "PKGNAME", name)), 0o644)
		replace[filepath.Join(repoRoot, rel, "zz_verif_api.go")] = api
		var sb strings.Builder
		fmt.Fprintf(&sb, "//go:build verif\n\npackage %s\n\nimport (\n\t\"encoding/json\"\n\t\"fmt\"\n\t\"os\"\n\t\"sort\"\n\t\"strings\"\n\t\"testing\"\n)\n\n", name)
		sb.WriteString("func vDispatch(name string, a []int) {\n\tswitch name {\n")
		for i, h := range p.names {
			var args []string
			for k := 0; k < p.arity[i]; k++ {
				args = append(args, fmt.Sprintf("a[%d]", k))
			}
			fmt.Fprintf(&sb, "\tcase %q:\n\t\t%s(%s)\n", h, h, strings.Join(args, ", "))
		}
		sb.WriteString("\tdefault:\n\t\tpanic(\"unknown harness \" + name)\n\t}\n}\n\n")
		sb.WriteString(`func TestVerifReplay(t *testing.T) {
	files := strings.Split(os.Getenv("VERIF_REPLAY_FILES"), ",")
	for _, f := range files {
		if f == "" {
			continue
		}
		os.Setenv("VERIF_REPLAY", f)
		res := map[string]interface{}{"file": f}
		func() {
			defer func() {
				if r := recover(); r != nil {
					if _, ok := r.(vAssumeFailure); ok {
						return
					}
					res["panic"] = fmt.Sprint(r)
				}
			}()
			vLoad()
			vDispatch(vVec.Harness, vVec.Args)
		}()
		res["failed"] = vFailed
		res["assume_failed"] = vAssumeFailed
		res["observed"] = vObserved
		var cov []string
		for k := range vCovered {
			cov = append(cov, k)
		}
		sort.Strings(cov)
		res["covered"] = cov
		out, _ := json.Marshal(res)
		fmt.Println("VERIF-RESULT " + string(out))
	}
}
`)
		// the repository's own test files are not needed for replays (and need not even compile):
		// each is overlaid by a stub that keeps only its package clause
		if ents, err := os.ReadDir(filepath.Join(repoRoot, rel)); err == nil {
			for _, e := range ents {
				if e.IsDir() || !strings.HasSuffix(e.Name(), "_test.go") {
					continue
				}
				src, _ := os.ReadFile(filepath.Join(repoRoot, rel, e.Name()))
				pkgName := name
				if m := regexp.MustCompile(`(?m)^package (\w+)`).FindStringSubmatch(string(src)); m != nil {
					pkgName = m[1]
				}
				stub := filepath.Join(d, "stub_"+pkgName+"_"+e.Name())
				os.WriteFile(stub, []byte("package "+pkgName+"\n"), 0o644)
				replace[filepath.Join(repoRoot, rel, e.Name())] = stub
			}
		}
		tf := filepath.Join(d, "zz_verif_replay_test.go")
		os.WriteFile(tf, []byte(sb.String()), 0o644)
		replace[filepath.Join(repoRoot, rel, "zz_verif_replay_test.go")] = tf
	}
	if err := stubOverlay(workDir, stubs, replace); err != nil {
		return "", err
	}
	ov, _ := json.Marshal(map[string]interface{}{"Replace": replace})
	ovPath := filepath.Join(workDir, "overlay.json")
	if err := os.WriteFile(ovPath, ov, 0o644); err != nil {
		return "", err
	}
	return ovPath, nil
}

var testBinMu sync.Mutex
var testBins = map[string]string{}

// nativeTestBinary compiles the replay test binary of a package (once per run).
func nativeTestBinary(workDir, pkg string, stubs map[string]string) (string, error) {
	testBinMu.Lock()
	defer testBinMu.Unlock()
	key := pkg + "|" + stubKey(stubs)
	if b, ok := testBins[key]; ok {
		return b, nil
	}
	if len(stubs) > 0 {
		workDir = filepath.Join(workDir, fmt.Sprintf("stubs%d", len(testBins)))
		os.MkdirAll(workDir, 0o755)
	}
	ov, err := nativeOverlay(workDir, stubs)
	if err != nil {
		return "", err
	}
	bin := filepath.Join(workDir, strings.ReplaceAll(strings.TrimPrefix(pkg, sym.RepoPath), "/", "_")+"_replay.test")
	cmd := exec.Command("go", "test", "-c", "-vet=off", "-tags", "verif", "-overlay", ov, "-o", bin, pkg)
	cmd.Dir = sym.ModDir
	cmd.Env = append(os.Environ(), "GOFLAGS=-mod=mod", "GOPROXY=off", "GOSUMDB=off", "GOTOOLCHAIN=local")
	out, err := cmd.CombinedOutput()
	if err != nil {
		return "", fmt.Errorf("building replay binary for %s: %v\n%s", pkg, err, out)
	}
	testBins[key] = bin
	return bin, nil
}

// runNative replays vectors natively; returns a result per file.
func runNative(workDir, pkg string, files []string) (map[string]replayResult, error) {
	return runNativeStubs(workDir, pkg, files, nil)
}

func runNativeStubs(workDir, pkg string, files []string, stubs map[string]string) (map[string]replayResult, error) {
	res := map[string]replayResult{}
	if len(files) == 0 {
		return res, nil
	}
	bin, err := nativeTestBinary(workDir, pkg, stubs)
	if err != nil {
		return nil, err
	}
	// run each vector in its own process when a panic is expected, else batch
	run := func(fs []string) (string, error) {
		cmd := exec.Command(bin, "-test.run", "TestVerifReplay", "-test.count=1", "-test.timeout", "120s")
		cmd.Dir = workDir
		cmd.Env = append(os.Environ(), "VERIF_REPLAY_FILES="+strings.Join(fs, ","))
		out, err := cmd.CombinedOutput()
		return string(out), err
	}
	const batch = 50
	for i := 0; i < len(files); i += batch {
		j := i + batch
		if j > len(files) {
			j = len(files)
		}
		out, _ := run(files[i:j])
		for _, line := range strings.Split(out, "\n") {
			if k := strings.Index(line, "VERIF-RESULT "); k >= 0 {
				var r replayResult
				if err := json.Unmarshal([]byte(line[k+len("VERIF-RESULT "):]), &r); err == nil {
					res[r.File] = r
				}
			}
		}
		for _, f := range files[i:j] {
			if _, ok := res[f]; !ok {
				// the process died (fatal error / timeout): run individually
				o, _ := run([]string{f})
				found := false
				for _, line := range strings.Split(o, "\n") {
					if k := strings.Index(line, "VERIF-RESULT "); k >= 0 {
						var r replayResult
						if err := json.Unmarshal([]byte(line[k+len("VERIF-RESULT "):]), &r); err == nil {
							res[r.File] = r
							found = true
						}
					}
				}
				if !found {
					res[f] = replayResult{File: f, Panic: "process died: " + lastLines(o, 5)}
				}
			}
		}
	}
	return res, nil
}

func lastLines(s string, n int) string {
	ls := strings.Split(strings.TrimSpace(s), "\n")
	if len(ls) > n {
		ls = ls[len(ls)-n:]
	}
	return strings.Join(ls, " | ")
}

func writeVector(dir string, v replayVector) string {
	os.MkdirAll(dir, 0o755)
	data, _ := json.MarshalIndent(v, "", " ")
	h := sha1.Sum(data)
	p := filepath.Join(dir, fmt.Sprintf("%s_%x.json", v.Harness, h[:6]))
	os.WriteFile(p, data, 0o644)
	return p
}

func repoStatus() string {
	out, _ := exec.Command("git", "-C", repoRoot, "status", "--porcelain").CombinedOutput()
	return string(out)
}

func cmdCheck(args []string) {
	fs := flag.NewFlagSet("check", flag.ExitOnError)
	tier := fs.String("tier", "quick", "quick|thorough")
	workers := fs.Int("workers", 16, "parallel workers")
	solver := fs.String("solver", "z3", "primary solver")
	nomerge := fs.Bool("no-merge", false, "disable if-conversion")
	replayFile := fs.String("replay", "", "replay a recorded vector natively")
	timeoutMs := fs.Int("solver-timeout-ms", 20000, "per-query solver timeout")
	only := fs.String("only", "", "only run harnesses whose name contains this")
	totalTimeout := fs.Int("total-timeout-s", 0, "wall-clock limit for the whole check (0: 1500 s quick, 6 h thorough); jobs not started by then are reported as not run (exit 2)")
	jobTimeout := fs.Int("job-timeout-s", 0, "wall-clock limit per job (a job hitting it is inconclusive; 0: 900 s quick, 3600 s thorough)")
	verbose := fs.Bool("v", false, "verbose")
	summary := fs.String("summary", "", "write a per-shape summary of violation ids (for differential self-checks)")
	if len(args) < 1 {
		fmt.Println("usage: gosym check <ID> [--tier quick|thorough]")
		os.Exit(2)
	}
	id := args[0]
	fs.Parse(args[1:])
	if t := os.Getenv("VERIF_TIER"); t != "" && !flagSet(fs, "tier") {
		*tier = t
	}
	seed := 0
	if s := os.Getenv("VERIF_SEED"); s != "" {
		seed, _ = strconv.Atoi(s)
	}
	spec, ok := props[id]
	if !ok {
		fmt.Println("unknown property", id)
		os.Exit(2)
	}
	// development aid (never used by a registered command): decide the assertions of sibling properties
	// that share this property's jobs in the same pass, e.g. VERIF_EXTRA_PREFIXES=C01.,C04.
	if extra := os.Getenv("VERIF_EXTRA_PREFIXES"); extra != "" {
		cp := *spec
		cp.AssertPrefix = append(append([]string{}, spec.AssertPrefix...), strings.Split(extra, ",")...)
		spec = &cp
	}
	workDir := filepath.Join(verifDir, ".work", id)
	if repoRoot != "/repo" {
		workDir = filepath.Join(scratchDir, "work", id)
		evidenceDir = filepath.Join(scratchDir, "evidence")
		replayDir = filepath.Join(scratchDir, "replays")
	}
	os.RemoveAll(workDir)
	os.MkdirAll(workDir, 0o755)

	if *replayFile != "" {
		os.Exit(doReplay(workDir, id, *replayFile))
	}

	if *solver != "z3" {
		solverDescription = *solver + " (incremental; one bit-vector and one integer-mode process per worker)"
	}
	t0 := time.Now()
	statusBefore := repoStatus()
	var pkgPaths []string
	for _, p := range spec.Pkgs {
		pkgPaths = append(pkgPaths, pkgImport(p))
	}
	prog, err := sym.LoadProgram(pkgPaths, loadOverlay(filepath.Join(verifDir, "harness"), false), []string{"verif"})
	if err != nil {
		fmt.Println("ENGINE-ERROR loading /repo:", err)
		os.Exit(2)
	}
	knownOpen, knownByID := loadKnown()
	var knownOpenList []string
	for k := range knownOpen {
		knownOpenList = append(knownOpenList, k)
	}
	sort.Strings(knownOpenList)
	jobs := spec.Jobs(*tier)
	if *jobTimeout == 0 {
		*jobTimeout = 900
		if *tier == "thorough" {
			*jobTimeout = 3600
		}
	}
	var filtered []sym.Job
	for _, j := range jobs {
		if *only != "" && !strings.Contains(j.Harness, *only) {
			continue
		}
		j.Pkg = pkgImport(j.Pkg)
		j.Cfg.NoMerge = *nomerge
		j.Cfg.KnownOpen = knownOpen
		if j.Cfg.JobTimeoutS == 0 {
			j.Cfg.JobTimeoutS = *jobTimeout
		}
		j.Cfg.AssertPrefix = spec.AssertPrefix
		if j.Cfg.SampleEvery == 0 {
			j.Cfg.SampleEvery = 1 + (seed % 3)
			j.Cfg.MaxSamples = 4
		}
		filtered = append(filtered, j)
	}
	jobs = filtered
	if *totalTimeout == 0 {
		*totalTimeout = 1500
		if *tier == "thorough" {
			*totalTimeout = 6 * 3600
		}
	}
	globalDeadline := time.Now().Add(time.Duration(*totalTimeout) * time.Second)
	notRun := 0
	// dynamic work queue: big jobs hand sub-trees of their DFS to idle workers
	var qmu sync.Mutex
	qcond := sync.NewCond(&qmu)
	queue := append([]sym.Job{}, jobs...)
	var allJobs []sym.Job
	var results []sym.JobResult
	running, idle, done := 0, 0, 0
	wantWork := func() bool {
		qmu.Lock()
		defer qmu.Unlock()
		return idle > 0 && len(queue) == 0
	}
	spawn := func(j sym.Job) {
		qmu.Lock()
		queue = append(queue, j)
		qmu.Unlock()
		qcond.Signal()
	}
	var wg sync.WaitGroup
	for w := 0; w < *workers; w++ {
		wg.Add(1)
		go func() {
			defer wg.Done()
			for {
				qmu.Lock()
				for len(queue) == 0 && running > 0 {
					idle++
					qcond.Wait()
					idle--
				}
				if len(queue) > 0 && time.Now().After(globalDeadline) {
					notRun += len(queue)
					queue = nil
				}
				if len(queue) == 0 {
					qmu.Unlock()
					qcond.Broadcast()
					return
				}
				j := queue[0]
				queue = queue[1:]
				running++
				qmu.Unlock()
				j.WantWork, j.Spawn = wantWork, spawn
				r := sym.RunJob(prog, j, *solver, *timeoutMs)
				qmu.Lock()
				running--
				done++
				allJobs = append(allJobs, j)
				results = append(results, r)
				if *verbose {
					fmt.Fprintf(os.Stderr, "[%d] %s%v prefix=%v paths=%d q=%d+%d viol=%d wall=%.1fs %v %s\n", done, j.Harness, j.Args, j.Prefix, r.Stats.Paths, r.Solver.Queries, r.IntSolver.Queries, len(r.Violations), r.Wall, r.Inconclusive, firstLine(r.EngineError))
				}
				qmu.Unlock()
				qcond.Broadcast()
			}
		}()
	}
	wg.Wait()
	jobs = allJobs

	if *summary != "" {
		// per shape: sorted set of violated assertion ids (known and new); used to diff merge vs --no-merge
		per := map[string]map[string]bool{}
		for i, r := range results {
			k := fmt.Sprintf("%s%v", jobs[i].Harness, jobs[i].Args)
			if per[k] == nil {
				per[k] = map[string]bool{}
			}
			for _, v := range r.Violations {
				per[k][v.Kind+":"+v.ID+":"+v.KnownID] = true
			}
			if r.EngineError != "" {
				per[k]["engine-error"] = true
			}
			for why := range r.Inconclusive {
				per[k]["inconclusive:"+why] = true
			}
		}
		var keys []string
		for k := range per {
			keys = append(keys, k)
		}
		sort.Strings(keys)
		var sb strings.Builder
		for _, k := range keys {
			var ids []string
			for v := range per[k] {
				ids = append(ids, v)
			}
			sort.Strings(ids)
			fmt.Fprintf(&sb, "%s %v\n", k, ids)
		}
		os.WriteFile(*summary, []byte(sb.String()), 0o644)
	}
	// aggregate
	ev := newEvidence(id, *tier, seed, spec)
	exit := 0
	var engineProblems []string
	if notRun > 0 {
		engineProblems = append(engineProblems, fmt.Sprintf("time limit of %d s reached: %d jobs were not run (inconclusive)", *totalTimeout, notRun))
	}
	type vrec struct {
		v     sym.Violation
		pkg   string
		file  string
		stubs map[string]string
	}
	var vrecs []vrec
	var sampleFiles []string
	samplePkg := map[string]string{}
	sampleVec := map[string]replayVector{}
	for i, r := range results {
		ev.addJob(jobs[i], r)
		if r.EngineError != "" {
			engineProblems = append(engineProblems, fmt.Sprintf("%s%v: %s", jobs[i].Harness, jobs[i].Args, r.EngineError))
		}
		for why, n := range r.Inconclusive {
			engineProblems = append(engineProblems, fmt.Sprintf("%s%v: inconclusive: %s (x%d)", jobs[i].Harness, jobs[i].Args, why, n))
		}
		for _, v := range r.Violations {
			vec := replayVector{Harness: v.Harness, Pkg: jobs[i].Pkg, Args: v.Args, Values: v.Model, Choices: v.Choices, Property: id, Known: v.KnownID, Prefixes: spec.AssertPrefix, Stubs: jobs[i].Cfg.Stubs}
			if v.KnownID == "" {
				vec.KnownOpen = knownOpenList
			}
			vec.Expect.Kind, vec.Expect.ID, vec.Expect.Msg = v.Kind, v.ID, v.Msg
			f := writeVector(filepath.Join(replayDir, id), vec)
			vrecs = append(vrecs, vrec{v, jobs[i].Pkg, f, jobs[i].Cfg.Stubs})
		}
		for _, s := range r.Samples {
			vec := replayVector{Harness: s.Harness, Pkg: jobs[i].Pkg, Args: s.Args, Values: s.Inputs, Choices: s.Choices, Property: id, Observed: s.Observed, Prefixes: spec.AssertPrefix, KnownOpen: knownOpenList, Stubs: jobs[i].Cfg.Stubs}
			vec.Expect.Kind = "sample"
			f := writeVector(filepath.Join(workDir, "samples"), vec)
			sampleFiles = append(sampleFiles, f)
			samplePkg[f] = jobs[i].Pkg
			sampleVec[f] = vec
		}
	}
	// native confirmation of violations
	type grp struct {
		pkg   string
		stubs map[string]string
		files []string
	}
	byPkg := map[string]*grp{}
	for _, vr := range vrecs {
		k := vr.pkg + "|" + stubKey(vr.stubs)
		if byPkg[k] == nil {
			byPkg[k] = &grp{pkg: vr.pkg, stubs: vr.stubs}
		}
		byPkg[k].files = append(byPkg[k].files, vr.file)
	}
	native := map[string]replayResult{}
	for _, g := range byPkg {
		pkg, files := g.pkg, g.files
		rs, err := runNativeStubs(workDir, pkg, files, g.stubs)
		if err != nil {
			engineProblems = append(engineProblems, err.Error())
			continue
		}
		for k, v := range rs {
			native[k] = v
		}
	}
	seenKnown := map[string]bool{}
	reported := map[string]bool{}
	for _, vr := range vrecs {
		nr, ok := native[vr.file]
		confirmed := false
		if vr.v.Kind == "ghost" {
			// ghost-state obligations (lock coverage) are facts about the symbolic path; the native
			// build has no ghost state to observe, so they are reported without native confirmation
			confirmed = true
		} else if ok {
			if vr.v.Kind == "panic" {
				confirmed = nr.Panic != ""
			} else {
				for _, f := range nr.Failed {
					if f == vr.v.ID {
						confirmed = true
					}
				}
			}
		}
		if !confirmed {
			engineProblems = append(engineProblems, fmt.Sprintf("ENGINE-MISMATCH: %s %s (%s) did not reproduce natively: %s (native: failed=%v panic=%q assume_failed=%v)", vr.v.Harness, vr.v.ID, vr.v.Msg, vr.file, nr.Failed, nr.Panic, nr.AssumeFailed))
			continue
		}
		if vr.v.KnownID != "" {
			if !seenKnown[vr.v.KnownID] {
				seenKnown[vr.v.KnownID] = true
				kf := knownByID[vr.v.KnownID]
				fmt.Printf("KNOWN-FINDING: property=%s %s [%s] replay=%s\n", id, kf.Description, kf.ID, vr.file)
				ev.KnownSeen = append(ev.KnownSeen, kf.ID)
			}
			continue
		}
		key := vr.v.Kind + ":" + vr.v.ID
		ev.Violations++
		if !reported[key] {
			reported[key] = true
			fmt.Printf("VIOLATION property=%s replay=%s\n", id, vr.file)
			fmt.Printf("  %s %s: %s (harness %s%v)\n", vr.v.Kind, vr.v.ID, vr.v.Msg, vr.v.Harness, vr.v.Args)
		}
		exit = 1
	}
	// open known findings of this property that were not seen are reported (the finding may be gone)
	for kid, kf := range knownByID {
		if kf.Property == id && kf.Status == "open" && !seenKnown[kid] && *only == "" {
			fmt.Printf("NOTE: known finding %s was not reproduced in this run (bounds of tier %s)\n", kid, *tier)
		}
	}
	// translator validation: replay sampled path witnesses natively and compare observed values
	if len(sampleFiles) > 0 {
		byPkg := map[string]*grp{}
		for _, f := range sampleFiles {
			st := sampleVec[f].Stubs
			k := samplePkg[f] + "|" + stubKey(st)
			if byPkg[k] == nil {
				byPkg[k] = &grp{pkg: samplePkg[f], stubs: st}
			}
			byPkg[k].files = append(byPkg[k].files, f)
		}
		for _, g := range byPkg {
			pkg, files := g.pkg, g.files
			rs, err := runNativeStubs(workDir, pkg, files, g.stubs)
			if err != nil {
				engineProblems = append(engineProblems, err.Error())
				continue
			}
			for _, f := range files {
				nr, ok := rs[f]
				vec := sampleVec[f]
				if !ok {
					engineProblems = append(engineProblems, "sample replay missing: "+f)
					continue
				}
				if nr.AssumeFailed {
					engineProblems = append(engineProblems, "ENGINE-MISMATCH: path witness violates a harness assumption natively: "+f)
					continue
				}
				bad := false
				for k, want := range vec.Observed {
					if got, ok := nr.Observed[k]; !ok || got != want {
						engineProblems = append(engineProblems, fmt.Sprintf("ENGINE-MISMATCH: observed %s symbolic=%d native=%d (%v) in %s", k, want, got, ok, f))
						bad = true
					}
				}
				if nr.Panic != "" || len(nr.Failed) > 0 {
					// a sampled witness of a completed path must not fail natively (violations are handled above)
					engineProblems = append(engineProblems, fmt.Sprintf("ENGINE-MISMATCH: path witness fails natively (%v %q): %s", nr.Failed, nr.Panic, f))
					bad = true
				}
				if !bad {
					ev.Coverage.TracesValidated++
					ev.Coverage.ObservedCompared += len(vec.Observed)
				}
			}
		}
	}
	// vacuity: every declared cover point must have been reached
	for _, c := range spec.Covers(*tier) {
		if !ev.coverSeen[c] {
			engineProblems = append(engineProblems, "VACUITY: cover point never reached: "+c)
		}
	}
	if st := repoStatus(); st != statusBefore {
		engineProblems = append(engineProblems, "/repo working tree changed during the run")
	}
	ev.WallS = time.Since(t0).Seconds()
	ev.finish()
	ev.write()
	if len(engineProblems) > 0 {
		sort.Strings(engineProblems)
		for i, p := range engineProblems {
			if i > 40 {
				fmt.Printf("... %d more\n", len(engineProblems)-i)
				break
			}
			fmt.Println("ENGINE-PROBLEM:", firstLine(p))
			if *verbose {
				fmt.Println(p)
			}
		}
		if exit == 0 {
			exit = 2
		}
	}
	fmt.Printf("%s tier=%s jobs=%d paths=%d queries=%d solver_s=%.1f wall_s=%.1f violations=%d known=%v exit=%d\n", id, *tier, len(jobs), ev.Coverage.States, ev.Coverage.Transitions, ev.Coverage.SolverS, ev.WallS, ev.Violations, ev.KnownSeen, exit)
	os.RemoveAll(workDir)
	os.Exit(exit)
}

func firstLine(s string) string {
	if i := strings.Index(s, "\n"); i >= 0 {
		return s[:i]
	}
	return s
}

func flagSet(fs *flag.FlagSet, name string) bool {
	found := false
	fs.Visit(func(f *flag.Flag) {
		if f.Name == name {
			found = true
		}
	})
	return found
}

func pkgImport(p string) string {
	if strings.HasPrefix(p, sym.RepoPath) {
		return p
	}
	if p == "" {
		return sym.RepoPath
	}
	return sym.RepoPath + "/" + p
}

// doReplay runs one recorded vector natively and reports whether the recorded failure reproduces.
func doReplay(workDir, id, file string) int {
	data, err := os.ReadFile(file)
	if err != nil {
		fmt.Println(err)
		return 2
	}
	var vec replayVector
	if err := json.Unmarshal(data, &vec); err != nil {
		fmt.Println(err)
		return 2
	}
	abs, _ := filepath.Abs(file)
	rs, err := runNativeStubs(workDir, vec.Pkg, []string{abs}, vec.Stubs)
	if err != nil {
		fmt.Println(err)
		return 2
	}
	r := rs[abs]
	out, _ := json.MarshalIndent(r, "", " ")
	fmt.Println(string(out))
	confirmed := false
	if vec.Expect.Kind == "panic" {
		confirmed = r.Panic != ""
	} else {
		for _, f := range r.Failed {
			if f == vec.Expect.ID {
				confirmed = true
			}
		}
	}
	os.RemoveAll(workDir)
	if confirmed {
		fmt.Printf("VIOLATION property=%s replay=%s\n", id, file)
		return 1
	}
	fmt.Println("recorded failure does not reproduce on the current tree")
	return 0
}

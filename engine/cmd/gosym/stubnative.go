package main

import (
	"bytes"
	"fmt"
	"go/ast"
	"go/parser"
	"go/printer"
	"go/token"
	"os"
	"path/filepath"
	"sort"
	"strings"

	"verif/engine/sym"
)

// Native counterpart of the engine's function cuts (JobConfig.Stubs): for replays the source file that
// declares a cut function is overlaid (go build -overlay, nothing in /repo changes) by a copy in which
// the function is renamed vReal<Name> and a stand-in with the original name either delegates to the
// harness's replacement or returns zero values. The copy is regenerated from the current source.

func stubKey(stubs map[string]string) string {
	var ks []string
	for k, v := range stubs {
		ks = append(ks, k+"="+v)
	}
	sort.Strings(ks)
	return strings.Join(ks, ",")
}

// parseStubTarget: "(*pkg/path.Type).Method" or "pkg/path.Func" -> (pkg path, receiver type, name)
func parseStubTarget(t string) (pkg, recv, name string) {
	if strings.HasPrefix(t, "(") {
		end := strings.Index(t, ")")
		inner := strings.TrimPrefix(t[1:end], "*")
		dot := strings.LastIndex(inner, ".")
		return inner[:dot], inner[dot+1:], t[end+2:]
	}
	dot := strings.LastIndex(t, ".")
	return t[:dot], "", t[dot+1:]
}

func stubOverlay(workDir string, stubs map[string]string, replace map[string]string) error {
	n := 0
	for target, rep := range stubs {
		pkg, recv, name := parseStubTarget(target)
		rel := strings.TrimPrefix(strings.TrimPrefix(pkg, sym.RepoPath), "/")
		dir := filepath.Join(repoRoot, rel)
		ents, err := os.ReadDir(dir)
		if err != nil {
			return err
		}
		done := false
		for _, e := range ents {
			if e.IsDir() || !strings.HasSuffix(e.Name(), ".go") || strings.HasSuffix(e.Name(), "_test.go") {
				continue
			}
			path := filepath.Join(dir, e.Name())
			fset := token.NewFileSet()
			f, err := parser.ParseFile(fset, path, nil, parser.ParseComments)
			if err != nil {
				return err
			}
			for _, d := range f.Decls {
				fd, ok := d.(*ast.FuncDecl)
				if !ok || fd.Name.Name != name {
					continue
				}
				r := ""
				if fd.Recv != nil && len(fd.Recv.List) == 1 {
					switch t := fd.Recv.List[0].Type.(type) {
					case *ast.StarExpr:
						if id, ok := t.X.(*ast.Ident); ok {
							r = id.Name
						}
					case *ast.Ident:
						r = t.Name
					}
				}
				if r != recv {
					continue
				}
				// stand-in with the original signature
				var sig bytes.Buffer
				standin := &ast.FuncDecl{Recv: fd.Recv, Name: ast.NewIdent(name), Type: fd.Type}
				printer.Fprint(&sig, fset, standin)
				var body string
				var args []string
				for i, p := range fd.Type.Params.List {
					if len(p.Names) == 0 {
						return fmt.Errorf("stub %s: unnamed parameter %d", target, i)
					}
					for _, nm := range p.Names {
						args = append(args, nm.Name)
					}
				}
				if rep == "zero" {
					var zs []string
					if fd.Type.Results != nil {
						for _, res := range fd.Type.Results.List {
							var tb bytes.Buffer
							printer.Fprint(&tb, fset, res.Type)
							cnt := len(res.Names)
							if cnt == 0 {
								cnt = 1
							}
							for k := 0; k < cnt; k++ {
								zs = append(zs, "*new("+tb.String()+")")
							}
						}
					}
					body = "{\n\treturn " + strings.Join(zs, ", ") + "\n}\n"
					if len(zs) == 0 {
						body = "{\n}\n"
					}
				} else {
					call := rep + "(" + strings.Join(args, ", ") + ")"
					if fd.Type.Results != nil && len(fd.Type.Results.List) > 0 {
						body = "{\n\treturn " + call + "\n}\n"
					} else {
						body = "{\n\t" + call + "\n}\n"
					}
				}
				fd.Name = ast.NewIdent("vReal" + name)
				var out bytes.Buffer
				if err := printer.Fprint(&out, fset, f); err != nil {
					return err
				}
				out.WriteString("\n" + sig.String() + " " + body)
				n++
				dst := filepath.Join(workDir, fmt.Sprintf("stubbed_%d_%s", n, e.Name()))
				if err := os.WriteFile(dst, out.Bytes(), 0o644); err != nil {
					return err
				}
				replace[path] = dst
				done = true
			}
		}
		if !done {
			return fmt.Errorf("stub target not found in source: %s", target)
		}
	}
	return nil
}

#!/bin/bash
# sequential thorough sweep, cheapest first
out=/verif/.run_all_thorough.txt; : > $out
for id in ${IDS:-C19 C15 C16 C13 C10 C14 C02 C03 C17 C18 C08 C07 C09 C20 C11 C12 C05 C04 C01 C06}; do
  s=$(date +%s)
  ./check $id --tier thorough > /verif/.run_all_$id.thorough.log 2>&1
  rc=$?
  echo "$id exit=$rc $(( $(date +%s) - s ))s $(tail -1 /verif/.run_all_$id.thorough.log | cut -c1-200)" >> $out
  mkdir -p /verif/evidence_thorough; cp /verif/evidence/$id.json /verif/evidence_thorough/$id.json 2>/dev/null
done

#!/bin/bash
# tools/run_seeded.sh <property> <patch.diff> [tier] — runs the property's check on a scratch copy of
# /repo's HEAD with the patch applied (nothing in /repo changes); prints a one-line verdict.
prop=$1; patch=$2; tier=${3:-quick}
name=$(basename $(dirname $patch))_$(basename $patch .diff)
d=/tmp/seed_$name; rm -rf $d /tmp/verif_scratch_seed_$name; mkdir -p $d
(cd /repo && git archive HEAD | tar -x -C $d)
(cd $d && git init -q . && git add -A >/dev/null 2>&1 && git -c user.email=a@b -c user.name=x commit -qm base >/dev/null 2>&1 && git apply --whitespace=nowarn $patch) || { echo "$prop $patch: patch does not apply"; exit 3; }
(cd $d && git -c user.email=a@b -c user.name=x commit -qam seeded >/dev/null 2>&1)
out=/verif/.mutant_results/seed_$name.log
(cd /verif/engine && VERIF_REPO_ROOT=$d /verif/bin/gosym check $prop --tier $tier > $out 2>&1)
rc=$?
echo "$prop $(basename $patch) tier=$tier exit=$rc violations=$(grep -c '^VIOLATION' $out); $(grep -A1 '^VIOLATION' $out | sed -n 2p | cut -c1-160)"
rm -rf $d /tmp/verif_scratch_seed_$name
exit $rc

#!/bin/bash
# tools/run_all.sh <tier> — runs every registered check once, sequentially; summary in .run_all_<tier>.txt
tier=${1:-quick}
out=/verif/.run_all_$tier.txt; : > $out
for id in C01 C02 C03 C04 C05 C06 C07 C08 C09 C10 C11 C12 C13 C14 C15 C16 C17 C18 C19 C20; do
  s=$(date +%s)
  ./check $id --tier $tier > /verif/.run_all_$id.$tier.log 2>&1
  rc=$?
  echo "$id exit=$rc $(( $(date +%s) - s ))s $(tail -1 /verif/.run_all_$id.$tier.log | cut -c1-200)" >> $out
done

#!/usr/bin/env python3
"""apply / revert a seed mutant on /repo:  tools/mutant.py apply M39 ; tools/mutant.py revert"""
import json, sys, subprocess
ms = {m['id']: m for m in json.load(open('/verif/mutants/seed_mutants.json'))}
if sys.argv[1] == 'revert':
    subprocess.check_call(['git', '-C', '/repo', 'checkout', '--', '.'])
    sys.exit(0)
m = ms[sys.argv[2]]
p = '/repo/' + m['file']
s = open(p).read()
assert s.count(m['old']) >= 1, "old text not found"
s = s.replace(m['old'], m['new'], 1)
open(p, 'w').write(s)
print("applied", m['id'], m['property'], m['expected'])

#!/bin/bash
# tools/confirm_seeded.sh <seed-id> <property> <worktree> <demo-relpath> "<demo cmd run in repo root>" "<needs>"
# Confirms an independently produced change on a scratch copy of /repo HEAD: the 61-test suite passes
# with it, the demonstration passes without it and fails with it; stores it under /verif/seeded/<seed-id>/.
sid=$1; prop=$2; wt=$3; demo=$4; democmd=$5; needs=$6
patch=${wt}_patch.diff
d=/tmp/confirm_$sid; rm -rf $d; mkdir -p $d
(cd /repo && git archive HEAD | tar -x -C $d)
mkdir -p $d/$(dirname $demo); cp -r $wt/$demo $d/$demo
export GOFLAGS= GOPROXY=off
cd $d
without=$( (eval "$democmd") >/tmp/confirm_$sid.without.log 2>&1; echo $?)
git init -q . >/dev/null 2>&1; git apply --whitespace=nowarn $patch || { echo "$sid: patch does not apply"; exit 3; }
with=$( (eval "$democmd") >/tmp/confirm_$sid.with.log 2>&1; echo $?)
rm -rf $d/$demo
suite=$( (go test -vet=off -count=1 ./combination/... ./pot/... ./regulator/... ./settlement/... ./testcases/...) >/tmp/confirm_$sid.suite.log 2>&1; echo $?)
build=$( (go build ./... ) >/tmp/confirm_$sid.build.log 2>&1; echo $?)
echo "$sid: demo without change exit=$without (want 0), with change exit=$with (want !=0), suite with change exit=$suite (want 0), build=$build"
if [ "$without" = 0 ] && [ "$with" != 0 ] && [ "$suite" = 0 ]; then
  o=/verif/seeded/$sid; mkdir -p $o; cp $patch $o/patch.diff; cp -r $wt/$demo $o/
  python3 - "$sid" "$prop" "$demo" "$democmd" "$needs" <<'PY'
import json,sys
sid,prop,demo,cmd,needs=sys.argv[1:6]
json.dump({"id":sid,"breaks_property":prop,"origin":"independent sub-agent given only the property text and a scratch worktree","needs_to_manifest":needs,"demonstration":demo,"demonstration_cmd":cmd,"confirmed":{"suite_passes_with_change":True,"demo_passes_without_change":True,"demo_fails_with_change":True,"how":"tools/confirm_seeded.sh on a scratch copy of /repo HEAD"}},open(f"/verif/seeded/{sid}/meta.json","w"),indent=1)
PY
  echo "$sid: CONFIRMED -> /verif/seeded/$sid"
else
  echo "$sid: NOT confirmed"
fi
cd /; rm -rf $d

#!/bin/bash
# tools/selfcheck_merge.sh <tier> ID... — differential self-check of the executor's if-conversion:
# every property check is run with and without merging; the per-shape sets of violated assertion ids
# must be identical (merging is an optimisation, never part of the semantics; DESIGN §2.3 / §8 risk b).
tier=$1; shift
out=/verif/.selfcheck; mkdir -p $out
rc=0
for id in "$@"; do
  (cd /verif/engine && /verif/bin/gosym check $id --tier $tier --summary $out/$id.merge.txt > $out/$id.merge.log 2>&1)
  (cd /verif/engine && /verif/bin/gosym check $id --tier $tier --no-merge --summary $out/$id.nomerge.txt > $out/$id.nomerge.log 2>&1)
  if cmp -s $out/$id.merge.txt $out/$id.nomerge.txt; then echo "$id: merge and no-merge agree ($(wc -l < $out/$id.merge.txt) shapes)"; else echo "$id: DIFFERENT"; diff $out/$id.merge.txt $out/$id.nomerge.txt | head -5; rc=1; fi
done
exit $rc

#!/bin/bash
# tools/run_mutants.sh <tier> M01 M02 ... — runs each seed mutant's property check on a scratch copy of /repo
tier=$1; shift
out=/verif/.mutant_results; mkdir -p $out
for m in "$@"; do
  (
  d=/tmp/mut_$m; rm -rf $d; mkdir -p $d; (cd /repo && git archive HEAD | tar -x -C $d); cd $d && git init -q . 2>/dev/null && git add -A >/dev/null 2>&1 && git -c user.email=a@b -c user.name=x commit -qm base >/dev/null 2>&1
  prop=$(python3 - <<PY
import json
ms={x['id']:x for x in json.load(open('/verif/mutants/seed_mutants.json'))}
m=ms['$m']; p='$d/'+m['file']; s=open(p).read(); assert m['old'] in s; open(p,'w').write(s.replace(m['old'],m['new'],1)); print(m['property'])
PY
)
  cd /verif/engine && VERIF_REPO_ROOT=$d /verif/bin/gosym check $prop --tier $tier > $out/$m.log 2>&1
  echo "$m $prop exit=$? $(grep -c '^VIOLATION' $out/$m.log) violations; $(grep '^VIOLATION' -A1 $out/$m.log | sed -n 2p | cut -c1-150)"
  rm -rf $d /tmp/verif_scratch_mut_$m
  )
done

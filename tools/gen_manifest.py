#!/usr/bin/env python3
"""Regenerates MANIFEST.json from tools/manifest_data.json (claimed checks) and properties.jsonl."""
import json
data = json.load(open('/verif/tools/manifest_data.json'))
props = [json.loads(l) for l in open('/verif/properties.jsonl')]
claimed = data['claimed']
checks = []
for p in props:
    c = claimed.get(p['id'])
    if not c:
        continue
    checks.append({
        "property_id": p['id'],
        "quick_cmd": f"./check {p['id']} --tier quick",
        "thorough_cmd": f"./check {p['id']} --tier thorough",
        "evidence_file": f"/verif/evidence/{p['id']}.json",
        "replay_cmd_template": f"./check {p['id']} --replay {{path}}",
        "engine": "gosym",
        "level_claimed": {"category": "model_checking", "text": c['text'], "design_ref": c.get('design_ref', 'DESIGN.md §4 ' + p['id'])},
        "level_note": c['note'],
        "technique": c.get('technique', "bounded symbolic execution of the real Go code (go/ssa -> SMT-LIB2 bit-vectors), z3 decides every branch and assertion; counterexamples replayed natively"),
    })
na = [{"property_id": p['id'], "reason": data['not_applicable'].get(p['id'], "check not built yet in this session (harness pending); no claim is made")} for p in props if p['id'] not in claimed]
m = {
    "version": 1,
    "setup_cmd": "cd /verif/engine && GOFLAGS=-mod=mod GOPROXY=off GOSUMDB=off GOTOOLCHAIN=local go build -o /verif/bin/gosym ./cmd/gosym",
    "hooks": {
        "guard": "verif",
        "enable": "no source hooks: harnesses are in-package overlay files (/verif/harness/<pkg>/zz_*.go, //go:build verif) injected by go/packages Overlay (symbolic build) and go test -overlay (native replay); the loader sets the tag",
        "baseline_off_cmd": "cd /repo && GOFLAGS= go test -vet=off -count=1 ./combination/... ./pot/... ./regulator/... ./settlement/... ./testcases/...",
        "source_commits": data.get('hook_commits', []),
        "add_only": True,
    },
    "engines": [{"name": "gosym", "path": "/verif/engine", "serves_properties": sorted(claimed.keys()),
                 "kind_free_text": "path-forking symbolic executor for go/ssa with if-conversion; terms are hash-consed bit-vector SMT terms; one incremental z3 process per worker; native replay through go test -overlay"}],
    "checks": checks,
    "not_applicable": na,
    "notes": data.get('notes', ''),
}
json.dump(m, open('/verif/MANIFEST.json', 'w'), indent=1)
print("claimed", len(checks), "not_applicable", len(na))

#!/bin/bash
# tools/selfcheck_solvers.sh <tier> ID... — differential self-check of the encodings across solvers:
# every check is run with z3 4.8.12 (primary), z3-new 5.1.0 and cvc5 1.0; the per-shape sets of
# violated assertion ids must be identical.
tier=$1; shift
out=/verif/.selfcheck; mkdir -p $out
rc=0
for id in "$@"; do
  for sv in z3 z3-new cvc5; do
    (cd /verif/engine && /verif/bin/gosym check $id --tier $tier --solver $sv --summary $out/$id.$sv.txt > $out/$id.$sv.log 2>&1)
  done
  if cmp -s $out/$id.z3.txt $out/$id.z3-new.txt && cmp -s $out/$id.z3.txt $out/$id.cvc5.txt; then echo "$id: z3, z3-new and cvc5 agree ($(wc -l < $out/$id.z3.txt) shapes)"; else echo "$id: SOLVERS DISAGREE"; diff $out/$id.z3.txt $out/$id.z3-new.txt | head -3; diff $out/$id.z3.txt $out/$id.cvc5.txt | head -3; rc=1; fi
done
# leave the evidence as the primary solver writes it
for id in "$@"; do (cd /verif/engine && /verif/bin/gosym check $id --tier $tier > /dev/null 2>&1); done
exit $rc

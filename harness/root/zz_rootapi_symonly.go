//go:build verif

package pokerface

// intercepted by the executor (deep copy / reflect.DeepEqual-style equality as a Bool term)
func vCloneState(gs *GameState) *GameState
func vSameState(a, b *GameState) bool

//go:build verif

package pokerface

// C02 — showdown pays the right players the right amounts (and the settlement clauses of C01).
// The real glue code (game.updatePots, game.CalculateGameResults) and the real pot / settlement
// packages run on symbolic contributions and hand strengths; fold flags are a concrete shape.

func c02min(a, b int64) int64 {
	if vFork(a < b) {
		return a
	}
	return b
}

// Harness_C02_Settle: n seats, folds = bit mask of folded seats, sorted != 0 assumes contributions
// non-decreasing in seat index (symmetry reduction, stated as a bound).
func Harness_C02_Settle(n int, folds int, sorted int) {
	gs := &GameState{}
	c := make([]int64, n)
	fold := make([]bool, n)
	power := make([]int, n)
	bank := make([]int64, n)
	for i := 0; i < n; i++ {
		c[i] = vInt64("c")
		vAssume(c[i] >= 0)
		vAssume(c[i] < (1 << 40))
		if sorted != 0 && i > 0 {
			vAssume(c[i-1] <= c[i])
		}
		w := vInt64("wager")
		vAssume(w >= 0)
		vAssume(w <= c[i])
		behind := vInt64("behind")
		vAssume(behind >= 0)
		vAssume(behind < (1 << 40))
		fold[i] = (folds>>uint(i))&1 == 1
		bank[i] = c[i] + behind
		ps := &PlayerState{
			Idx:              i,
			Fold:             fold[i],
			Bankroll:         bank[i],
			Pot:              c[i] - w,
			Wager:            w,
			StackSize:        behind,
			InitialStackSize: behind + w,
			Combination:      &CombinationInfo{},
		}
		if !fold[i] {
			power[i] = vInt("power")
			vAssume(power[i] > 0)
			vAssume(power[i] < (1 << 40))
			ps.Combination.Power = power[i]
		}
		gs.Players = append(gs.Players, ps)
	}
	g := NewGameFromState(gs)
	g.updatePots()
	g.CalculateGameResults()
	c02check(n, c, fold, power, bank, gs)
}

func c02check(n int, c []int64, fold []bool, power []int, bank []int64, gs *GameState) {
	r := gs.Result
	vAssert(r != nil, "C02.result-present")
	if r == nil {
		return
	}
	vAssert(len(r.Players) == n, "C02.result-per-player")
	lo := make([]int64, n)
	hi := make([]int64, n)
	loLvl := make([]int64, n) // per-level bounds: signature of the known odd-chip defect
	hiLvl := make([]int64, n)
	prev := int64(0)
	ties := false
	for _, p := range gs.Status.Pots {
		// eligible = non-folded seats that paid into this layer
		best := 0
		cnt := 0
		for i := 0; i < n; i++ {
			if !fold[i] && vFork(c[i] >= p.Level) {
				if vFork(power[i] > best) {
					best = power[i]
				}
				cnt++
			}
		}
		if cnt == 0 {
			// only folded seats reached this layer: their own chips go back
			for i := 0; i < n; i++ {
				if vFork(c[i] > prev) {
					own := c02min(c[i], p.Level) - prev
					lo[i] += own
					hi[i] += own
					loLvl[i] += own
					hiLvl[i] += own
				}
			}
			prev = p.Level
			continue
		}
		w := int64(0)
		for i := 0; i < n; i++ {
			if !fold[i] && vFork(c[i] >= p.Level) && vFork(power[i] == best) {
				w++
			}
		}
		if w >= 2 {
			ties = true
		}
		for i := 0; i < n; i++ {
			if !fold[i] && vFork(c[i] >= p.Level) && vFork(power[i] == best) {
				lo[i] += p.Total / w
				hi[i] += (p.Total + w - 1) / w
				for _, l := range p.Levels {
					loLvl[i] += l.Total / w
					hiLvl[i] += (l.Total + w - 1) / w
				}
			}
		}
		prev = p.Level
	}
	sum := int64(0)
	for i := 0; i < n; i++ {
		pr := r.Players[i]
		vAssert(pr.Idx == i, "C02.result-order")
		payout := pr.Changed + c[i]
		inLevelBounds := vAnd(loLvl[i] <= payout, payout <= hiLvl[i])
		vAssertK(vAnd(lo[i] <= payout, payout <= hi[i]), "C02.share-of-each-pot", "KF-C02-ODDCHIPS", inLevelBounds)
		if fold[i] {
			vAssert(pr.Changed <= 0, "C02.folded-wins-nothing")
		}
		vAssert(pr.Final == bank[i]+pr.Changed, "C01.final-is-bankroll-plus-change")
		vAssert(pr.Final >= 0, "C01.final-nonnegative")
		vAssert(pr.Changed >= -c[i], "C01.loses-at-most-own-contribution")
		sum += pr.Changed
		vObserve("changed", pr.Changed)
	}
	vAssert(sum == 0, "C01.changes-sum-to-zero")
	vCover("C02.settled")
	if ties {
		vCover("C02.tie")
	}
	if len(gs.Status.Pots) >= 2 {
		vCover("C02.side-pot")
	}
}

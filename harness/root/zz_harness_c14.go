//go:build verif

package pokerface

// C14 — cards are dealt from the deck without loss, duplication or change.
//  Harness_C14_Hand    : a whole hand on a deck of opaque symbolic cards (hand evaluation cut out:
//                        its frame condition is C10's obligation); after every operation hole cards,
//                        board and burned cards are exactly the consumed top of the deck, counts are
//                        right, and what was dealt before is a prefix of what is dealt now.
//  Harness_C14_Shuffle : ShuffleCards with rand.Shuffle modelled as k arbitrary in-range swaps:
//                        same slice, same multiset of cards.
//  Harness_C14_Decks   : the deck builders produce 52 / 36 pairwise distinct valid cards.

type c14Snap struct {
	hole   [][]string
	board  []string
	burned []string
	pos    int
}

func c14Take(gs *GameState) *c14Snap {
	s := &c14Snap{pos: gs.Status.CurrentDeckPosition}
	for _, p := range gs.Players {
		s.hole = append(s.hole, append([]string{}, p.HoleCards...))
	}
	s.board = append([]string{}, gs.Status.Board...)
	s.burned = append([]string{}, gs.Status.Burned...)
	return s
}

func c14Prefix(old, cur []string, id string) {
	vAssert(len(old) <= len(cur), id)
	if len(old) <= len(cur) {
		for i := range old {
			vAssert(old[i] == cur[i], id)
		}
	}
}

// c14Check: the dealt cards are exactly deck[0:pos] in dealing order, and nothing dealt earlier changed.
func c14Check(gs *GameState, deck []string, hole int, prev *c14Snap, tag string) *c14Snap {
	n := len(gs.Players)
	st := &gs.Status
	vAssert(len(gs.Meta.Deck) == len(deck), "C14.deck-keeps-its-length"+tag)
	if len(gs.Meta.Deck) == len(deck) {
		for i := range deck {
			vAssert(gs.Meta.Deck[i] == deck[i], "C14.deck-unchanged-by-play"+tag)
		}
	}
	var seq []string
	dealtHole := false
	for _, p := range gs.Players {
		if len(p.HoleCards) > 0 {
			dealtHole = true
		}
	}
	if dealtHole {
		for _, p := range gs.Players {
			vAssert(len(p.HoleCards) == hole, "C14.configured-number-of-hole-cards"+tag)
			seq = append(seq, p.HoleCards...)
		}
	}
	nb := len(st.Board)
	vAssert(nb == 0 || nb == 3 || nb == 4 || nb == 5, "C14.board-has-0-3-4-5-cards"+tag)
	wantBurn := 0
	if nb >= 3 {
		wantBurn = nb - 2
	}
	vAssert(len(st.Burned) == wantBurn, "C14.one-burn-per-street"+tag)
	if len(st.Burned) == wantBurn && wantBurn > 0 {
		seq = append(seq, st.Burned[0])
		seq = append(seq, st.Board[0:3]...)
		if nb >= 4 {
			seq = append(seq, st.Burned[1], st.Board[3])
		}
		if nb >= 5 {
			seq = append(seq, st.Burned[2], st.Board[4])
		}
	}
	vAssert(st.CurrentDeckPosition == len(seq), "C14.deck-position-is-number-of-cards-dealt"+tag)
	if dealtHole {
		vAssert(len(seq) == n*hole+nb+wantBurn, "C14.count-of-dealt-cards"+tag)
	}
	if len(seq) <= len(deck) {
		for i := range seq {
			vAssert(seq[i] == deck[i], "C14.dealt-cards-are-the-consumed-top-of-the-deck"+tag)
		}
	}
	cur := c14Take(gs)
	if prev != nil {
		for i := range prev.hole {
			c14Prefix(prev.hole[i], cur.hole[i], "C14.hole-cards-never-change"+tag)
			if len(prev.hole[i]) > 0 {
				vAssert(len(cur.hole[i]) == len(prev.hole[i]), "C14.hole-cards-never-change"+tag)
			}
		}
		c14Prefix(prev.board, cur.board, "C14.board-only-grows"+tag)
		c14Prefix(prev.burned, cur.burned, "C14.burned-only-grows"+tag)
		vAssert(prev.pos <= cur.pos, "C14.deck-position-only-advances"+tag)
	}
	return cur
}

// scenario 0: everybody checks/calls to the showdown; 1: everybody all-in before the flop (run-out);
// 2: everybody but the last seat folds on the flop (early ending); 3: first actor folds before the flop
func Harness_C14_Hand(n int, hole int, scenario int, slack int) {
	opts := NewStardardGameOptions()
	opts.HoleCardsCount = hole
	if hole == 4 {
		opts.RequiredHoleCardsCount = 2
	}
	total := n*hole + 8 + slack // slack 0: the deck holds exactly the cards the hand needs
	deck := make([]string, total)
	for i := range deck {
		deck[i] = vSymString("card", 2)
	}
	opts.Deck = append([]string{}, deck...)
	pos := vhPositions(n, 0, 0)
	for i := 0; i < n; i++ {
		opts.Players = append(opts.Players, &PlayerSetting{Bankroll: 1000, Positions: pos[i]})
	}
	g := NewGame(opts)
	gs := g.GetState()
	vAssert(g.Start() == nil, "C06.start-succeeds")
	// after the (modelled) shuffle the deck is whatever it is now; dealing is relative to it
	shuffled := append([]string{}, gs.Meta.Deck...)
	snap := c14Check(gs, shuffled, hole, nil, "@start")
	steps := 0
	for gs.Status.CurrentEvent != "GameClosed" && steps < 60 {
		steps++
		var err error
		switch gs.Status.CurrentEvent {
		case "ReadyRequested":
			err = g.ReadyForAll()
		case "AnteRequested":
			err = g.PayAnte()
		case "BlindsRequested":
			err = g.PayBlinds()
		case "RoundClosed":
			err = g.Next()
		case "RoundStarted":
			p := g.GetCurrentPlayer()
			round := gs.Status.Round
			switch {
			case p.CheckAction("pass"):
				err = p.Pass()
			case scenario == 1 && p.CheckAction("allin"):
				err = p.Allin()
			case scenario == 2 && round == "flop" && p.SeatIndex() != n-1 && p.CheckAction("fold"):
				err = p.Fold()
			case scenario == 2 && round == "flop" && p.SeatIndex() == n-1 && p.CheckAction("bet"):
				err = p.Bet(50)
			case scenario == 3 && round == "preflop" && p.CheckAction("fold") && g.GetAlivePlayerCount() > 1:
				err = p.Fold()
			case p.CheckAction("call"):
				err = p.Call()
			case p.CheckAction("check"):
				err = p.Check()
			default:
				err = p.Allin()
			}
		default:
			vAssert(false, "C06.unknown-wait-point")
			return
		}
		vAssert(err == nil, "C06.expected-step-succeeds")
		snap = c14Check(gs, shuffled, hole, snap, "@step")
	}
	vAssert(gs.Status.CurrentEvent == "GameClosed", "C06.hand-finishes")
	if len(gs.Status.Board) == 5 {
		vCover("C14.full-board")
	} else {
		vCover("C14.early-ending")
	}
}

// Harness_C14_Shuffle: the number of modelled swaps is the job's ShuffleSwaps setting.
func Harness_C14_Shuffle(n int) {
	cards := make([]string, n)
	for i := range cards {
		cards[i] = vSymString("card", 2)
	}
	orig := append([]string{}, cards...)
	out := ShuffleCards(cards)
	vAssert(len(out) == n, "C14.shuffle-keeps-length")
	if len(out) != n {
		return
	}
	// same backing slice: the function shuffles in place and returns its argument
	for i := 0; i < n; i++ {
		vAssert(out[i] == cards[i], "C14.shuffle-returns-its-argument")
	}
	// same cards, each as often as before
	for i := 0; i < n; i++ {
		before := int64(0)
		after := int64(0)
		for j := 0; j < n; j++ {
			before += vIte(orig[j] == orig[i], 1, 0)
			after += vIte(out[j] == orig[i], 1, 0)
		}
		vAssert(before == after, "C14.shuffle-only-reorders")
	}
	vCover("C14.shuffled")
}

func Harness_C14_Decks() {
	std := NewStandardDeckCards()
	short := NewShortDeckCards()
	vAssert(len(std) == 52, "C14.standard-deck-has-52-cards")
	vAssert(len(short) == 36, "C14.short-deck-has-36-cards")
	for _, d := range [][]string{std, short} {
		for i := range d {
			vAssert(len(d[i]) == 2, "C14.card-is-suit-and-rank")
			if len(d[i]) == 2 {
				vAssert(vhHas(CardSuits, d[i][0:1]) && vhHas(CardPoints, d[i][1:2]), "C14.card-is-suit-and-rank")
			}
			for j := 0; j < i; j++ {
				vAssert(d[i] != d[j], "C14.deck-has-no-duplicates")
			}
		}
	}
	for _, c := range short {
		vAssert(c[1:2] != "2" && c[1:2] != "3" && c[1:2] != "4" && c[1:2] != "5", "C14.short-deck-has-no-low-cards")
	}
	vCover("C14.decks-built")
}

//go:build verif

package pokerface

// Shared helpers of the engine harnesses.

const vhAmountLimit = int64(1) << 40

// vhPositions returns the position lists of a table of n seats with the dealer at seat d.
// layout 0: dealer / sb / bb (heads-up: the dealer is the small blind);
// layout 1: dead small blind (the seat after the dealer has no role), needs n >= 3;
// layout 2: positions as layout 0 (used with dealer-blind stakes).
func vhPositions(n, d, layout int) [][]string {
	pos := make([][]string, n)
	for i := range pos {
		pos[i] = []string{}
	}
	if n == 2 {
		pos[d] = []string{"dealer", "sb"}
		pos[(d+1)%n] = []string{"bb"}
		return pos
	}
	pos[d] = []string{"dealer"}
	if layout != 1 {
		pos[(d+1)%n] = []string{"sb"}
	}
	pos[(d+2)%n] = []string{"bb"}
	for k := 3; k < n; k++ {
		pos[(d+k)%n] = []string{"ug"}
	}
	return pos
}

func vhSeatWith(pos [][]string, role string) int {
	for i, ps := range pos {
		for _, p := range ps {
			if p == role {
				return i
			}
		}
	}
	return -1
}

func vhHas(list []string, s string) bool {
	for _, x := range list {
		if x == s {
			return true
		}
	}
	return false
}

func vhMin(a, b int64) int64 {
	if vFork(a < b) {
		return a
	}
	return b
}

func vhMax(a, b int64) int64 {
	if vFork(a < b) {
		return b
	}
	return a
}

// vhAccounts asserts the chip identities of C01 for every seat and the round pot identity.
func vhAccounts(gs *GameState, tag string) {
	sum := int64(0)
	mx := int64(0)
	for _, p := range gs.Players {
		vAssert(p.Bankroll == p.StackSize+p.Wager+p.Pot, "C01.bankroll-identity"+tag)
		vAssert(p.InitialStackSize == p.StackSize+p.Wager, "C01.street-stack-identity"+tag)
		vAssert(p.StackSize >= 0, "C01.stack-nonneg"+tag)
		vAssert(p.Wager >= 0, "C01.wager-nonneg"+tag)
		vAssert(p.Pot >= 0, "C01.pot-nonneg"+tag)
		vAssert(p.StackSize <= p.Bankroll, "C12.stack-not-above-bankroll"+tag)
		vAssert(vAnd(vAnd(p.StackSize >= 0, p.Wager >= 0), p.Pot >= 0), "C12.no-amount-makes-wager-stack-or-pot-negative"+tag)
		sum += p.Wager
		mx = vIte(p.Wager > mx, p.Wager, mx)
	}
	vAssert(gs.Status.CurrentRoundPot == sum, "C01.round-pot-is-sum-of-wagers"+tag)
	vAssert(gs.Status.CurrentWager == mx, "C01.wager-to-match-is-max-wager"+tag)
}

// vhPotsTotal asserts that published pots add up to what the players have put in so far
// (pots are recomputed when a round closes and after the antes).
func vhPotsTotal(gs *GameState, tag string) {
	total := int64(0)
	for _, p := range gs.Status.Pots {
		total += p.Total
	}
	in := int64(0)
	for _, p := range gs.Players {
		in += p.Pot + p.Wager
	}
	vAssert(total == in, "C01.pots-add-up"+tag)
}

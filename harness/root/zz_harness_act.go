//go:build verif

package pokerface

import (
	"github.com/weedbox/pokerface/combination"
	"github.com/weedbox/pokerface/pot"
)

// Inductive step harness for the betting round (DESIGN §3.1, wait point W_act):
// a state at "RoundStarted, seat cur to act" is built directly (what the stateless backend does for
// every call: NewGameFromState), its chip accounts, flags and stakes are symbolic under the invariant
// Inv_act, one real action is executed, and the post-state is checked against C01/C04/C05/C06/C11/C12
// and against Inv_act again (so the invariant is inductive and the step covers histories of any length).

var vhRounds = []string{"preflop", "flop", "turn", "river"}
var vhOps = []string{"fold", "check", "call", "allin", "bet", "raise", "pass", "pay"}

// vhBuildState builds the concrete skeleton of a hand on the given street (cards, positions, event).
func vhBuildState(n, dealer, layout, street, limit int, event string) *GameState {
	deck := NewStandardDeckCards()
	gs := &GameState{
		GameID: "verif",
		Meta: Meta{
			Limit:                  "no",
			HoleCardsCount:         2,
			RequiredHoleCardsCount: 0,
			CombinationPowers:      combination.CombinationPowerStandard,
			Deck:                   deck,
			BurnCount:              1,
		},
	}
	if limit == 1 {
		gs.Meta.Limit = "pot"
	}
	pos := vhPositions(n, dealer, layout)
	dp := 0
	for i := 0; i < n; i++ {
		ps := &PlayerState{
			Idx:            i,
			Positions:      pos[i],
			AllowedActions: make([]string, 0),
			HoleCards:      deck[dp : dp+2],
			Combination:    &CombinationInfo{},
		}
		dp += 2
		gs.Players = append(gs.Players, ps)
	}
	st := &gs.Status
	st.Pots = make([]*pot.Pot, 0)
	st.Board = make([]string, 0)
	st.Burned = make([]string, 0)
	if street >= 1 {
		st.Burned = append(st.Burned, deck[dp])
		st.Board = append(st.Board, deck[dp+1:dp+4]...)
		dp += 4
	}
	if street >= 2 {
		st.Burned = append(st.Burned, deck[dp])
		st.Board = append(st.Board, deck[dp+1])
		dp += 2
	}
	if street >= 3 {
		st.Burned = append(st.Burned, deck[dp])
		st.Board = append(st.Board, deck[dp+1])
		dp += 2
	}
	st.CurrentDeckPosition = dp
	st.Round = vhRounds[street]
	st.CurrentEvent = event
	st.LastAction = &Action{Source: -1, Type: "next", Value: 0}
	return gs
}

type vhPre struct {
	n                       int
	fold, acted             []bool
	pot, wager, stack, init []int64
	bank                    []int64
	cw, prs, roundPot       int64
	bb, sb, db, minibet     int64
	alive, movable          int64
	notActed                int64
	stackSum                int64
}

// vhHavocAccounts makes the chip accounts, flags and stakes symbolic under I1/I2 (DESIGN §3.1).
func vhHavocAccounts(gs *GameState) *vhPre {
	n := len(gs.Players)
	pre := &vhPre{n: n}
	st := &gs.Status
	pre.bb = vInt64("BB")
	pre.sb = vInt64("SB")
	pre.db = vInt64("DealerBlind")
	ante := vInt64("Ante")
	for _, v := range []int64{pre.bb, pre.sb, pre.db, ante} {
		vAssume(v >= 0)
		vAssume(v < vhAmountLimit)
	}
	gs.Meta.Blind = BlindSetting{Dealer: pre.db, SB: pre.sb, BB: pre.bb}
	gs.Meta.Ante = ante
	pre.minibet = vIte(pre.db > pre.bb, pre.db, pre.bb)
	st.MiniBet = pre.minibet
	sumW := int64(0)
	maxW := int64(0)
	for _, p := range gs.Players {
		p.Fold = vBool("fold")
		p.Acted = vBool("acted")
		p.VPIP = vBool("vpip")
		po := vInt64("pot")
		w := vInt64("wager")
		s := vInt64("stack")
		for _, v := range []int64{po, w, s} {
			vAssume(v >= 0)
			vAssume(v < vhAmountLimit)
		}
		vAssume(po+w+s > 0)
		p.Pot, p.Wager, p.StackSize = po, w, s
		p.InitialStackSize = s + w
		p.Bankroll = po + w + s
		p.AllowedActions = make([]string, 0)
		sumW += w
		maxW = vIte(w > maxW, w, maxW)
		pre.fold = append(pre.fold, p.Fold)
		pre.acted = append(pre.acted, p.Acted)
		pre.pot = append(pre.pot, po)
		pre.wager = append(pre.wager, w)
		pre.stack = append(pre.stack, s)
		pre.init = append(pre.init, s+w)
		pre.bank = append(pre.bank, po+w+s)
		pre.alive += vIte(!p.Fold, 1, 0)
		pre.movable += vIte(vAnd(!p.Fold, s > 0), 1, 0)
		pre.notActed += vIte(!p.Acted, 1, 0)
		pre.stackSum += s
	}
	st.CurrentRoundPot = sumW
	st.CurrentWager = maxW
	pre.cw = maxW
	pre.roundPot = sumW
	pre.prs = vInt64("PreviousRaiseSize")
	vAssume(pre.prs >= 0)
	vAssume(pre.prs < vhAmountLimit)
	st.PreviousRaiseSize = pre.prs
	st.MaxWager = vInt64("MaxWager")
	raiser := vInt("CurrentRaiser")
	vAssume(raiser >= 0)
	vAssume(raiser < n)
	st.CurrentRaiser = raiser
	return pre
}

// vhInvTurn assumes the turn-structure invariant at W_act with seat cur to act:
//  A: cur has not acted; going clockwise from cur the flags are false...false true...true;
//  J: a non-folded seat with chips that has acted has matched the wager.
func vhInvTurnAssume(pre *vhPre, cur int) {
	n := pre.n
	vAssume(!pre.acted[cur])
	for j := 1; j+1 < n; j++ {
		vAssume(vImplies(pre.acted[(cur+j)%n], pre.acted[(cur+j+1)%n]))
	}
	for i := 0; i < n; i++ {
		vAssume(vImplies(vAnd(pre.acted[i], vAnd(!pre.fold[i], pre.stack[i] > 0)), pre.wager[i] == pre.cw))
	}
}

func vhInvTurnAssert(gs *GameState, cur int, tag string) {
	n := len(gs.Players)
	cw := gs.Status.CurrentWager
	vAssert(!gs.Players[cur].Acted, "C05.inv-to-act-has-not-acted"+tag)
	for j := 1; j+1 < n; j++ {
		vAssert(vImplies(gs.Players[(cur+j)%n].Acted, gs.Players[(cur+j+1)%n].Acted), "C05.inv-acted-seats-form-an-arc"+tag)
	}
	for _, p := range gs.Players {
		vAssert(vImplies(vAnd(p.Acted, vAnd(!p.Fold, p.StackSize > 0)), p.Wager == cw), "C05.inv-acted-seat-has-matched"+tag)
	}
}

func vhSameList(a, b []string) bool {
	if len(a) != len(b) {
		return false
	}
	for i := range a {
		if a[i] != b[i] {
			return false
		}
	}
	return true
}

// vhCheckOffered checks the list offered to the seat to act against the table of C11.
func vhCheckOffered(pre *vhPre, cur int, list []string) {
	if vFork(vOr(pre.fold[cur], pre.stack[cur] == 0)) {
		vAssert(len(list) == 1 && list[0] == "pass", "C11.folded-or-allin-only-pass")
		return
	}
	facing := vFork(pre.wager[cur] < pre.cw)
	vAssert(!vhHas(list, "pass"), "C11.pass-only-for-folded-or-allin")
	vAssert(vhHas(list, "allin"), "C11.allin-always-offered")
	vAssert(vhHas(list, "fold") == facing, "C11.fold-iff-facing")
	vAssert(vhHas(list, "check") == !facing, "C11.check-iff-not-facing")
	if facing {
		if vFork(pre.init[cur] > pre.cw) {
			vAssert(vhHas(list, "call"), "C11.call-when-covering-with-chips-to-spare")
		}
	} else {
		vAssert(!vhHas(list, "call"), "C11.no-call-when-not-facing")
	}
	if vFork(pre.cw == 0) {
		vAssert(!vhHas(list, "raise"), "C11.no-raise-without-wager")
		if vFork(pre.init[cur] >= pre.minibet) {
			vAssert(vhHas(list, "bet"), "C11.bet-when-nobody-wagered-and-min-bet-held")
		}
	} else {
		vAssert(!vhHas(list, "bet"), "C11.no-bet-when-wager-stands")
		if vFork(vAnd(pre.init[cur] > pre.cw+pre.prs, pre.init[cur] >= pre.minibet)) {
			vAssert(vhHas(list, "raise"), "C11.raise-when-min-raise-and-min-bet-held")
		}
	}
	for _, a := range list {
		vAssert(vhHas(vhOps, a) && a != "pay", "C11.only-known-actions")
	}
}

func vhDo(p Player, op int, x int64) error {
	switch op {
	case 0:
		return p.Fold()
	case 1:
		return p.Check()
	case 2:
		return p.Call()
	case 3:
		return p.Allin()
	case 4:
		return p.Bet(x)
	case 5:
		return p.Raise(x)
	case 6:
		return p.Pass()
	case 7:
		return p.Pay(x)
	}
	panic("bad op")
}

// vhUnchangedAccounts: no seat's chips moved.
func vhUnchangedAccounts(pre *vhPre, gs *GameState, id string) {
	for i, p := range gs.Players {
		vAssert(vAnd(vAnd(p.Pot == pre.pot[i], p.Wager == pre.wager[i]), vAnd(p.StackSize == pre.stack[i], p.Bankroll == pre.bank[i])), id)
	}
	vAssert(gs.Status.CurrentRoundPot == pre.roundPot, id)
	vAssert(gs.Status.CurrentWager == pre.cw, id)
}

// Harness_Act: one betting action from an arbitrary invariant-satisfying W_act state.
func Harness_Act(n int, layout int, street int, limit int, cur int, op int) {
	gs := vhBuildState(n, 0, layout, street, limit, "RoundStarted")
	pre := vhHavocAccounts(gs)
	gs.Status.CurrentPlayer = cur
	vAssume(pre.alive >= 2)
	vAssume(pre.movable >= 1)
	vhInvTurnAssume(pre, cur)
	g := NewGameFromState(gs)
	me := g.Player(cur)
	list := g.GetAvailableActions(me)
	me.AllowActions(list)
	vhCheckOffered(pre, cur, list)

	x := int64(0)
	if op == 4 || op == 5 || op == 7 {
		x = vInt64("amount") // every int64: negative, zero, tiny, above the stack
		// case split only (no restriction): moderate amounts are decided over the integers, extreme
		// ones with wrap-around bit-vector semantics
		if vFork(vAnd(x > -4*vhAmountLimit, x < 4*vhAmountLimit)) {
			vCover("act.amount-moderate")
		} else {
			vCover("act.amount-extreme")
		}
	}

	// C04: every other seat is refused, state untouched (same operation, same amount)
	before := vCloneState(gs)
	for j := 0; j < n && vWants("C04."); j++ {
		if j == cur {
			continue
		}
		err := vhDo(g.Player(j), op, x)
		same := vSameState(before, gs)
		vAssertK(err != nil, "C04.other-seat-refused-with-error", "KF-C04-PASS-NIL", vAnd(op == 6, same))
		vAssert(same, "C04.other-seat-leaves-state-unchanged")
	}
	// table operations in the wrong phase
	if vWants("C04.") {
		vAssert(g.Next() != nil && g.ReadyForAll() != nil && g.PayAnte() != nil && g.PayBlinds() != nil, "C04.table-ops-refused-during-betting")
		vAssert(vSameState(before, gs), "C04.table-ops-leave-state-unchanged")
	}

	offered := vhHas(list, vhOps[op])
	err := vhDo(me, op, x)
	ok := err == nil
	st := &gs.Status
	vObserveB("accepted", ok)

	if !offered {
		same := vSameState(before, gs)
		vAssertK(!ok, "C04.not-offered-refused-with-error", "KF-C04-PASS-NIL", vAnd(op == 6, same))
		vAssert(same, "C04.not-offered-leaves-state-unchanged")
		return
	}
	// offered: the step succeeds (C06), except bet/raise/pay sizes the rules refuse
	switch op {
	case 0, 1, 2, 3, 6:
		vAssert(ok, "C06.offered-action-succeeds")
	case 5:
		// legal sizes: any level above the wager to match
		vAssert(vImplies(x > pre.cw, ok), "C06.offered-raise-above-wager-succeeds")
	case 4:
		vAssert(vImplies(x > 0, ok), "C06.offered-bet-succeeds")
	}
	if !vFork(ok) {
		// refused: nothing may have changed
		vAssert(vSameState(before, gs), "C04.refused-leaves-state-unchanged")
		vCover("act.refused-size")
		return
	}
	// ---- accepted ----
	vhAccounts(gs, "@act")
	vAssert(st.CurrentWager >= pre.cw, "C12.wager-to-match-never-goes-down")
	meS := gs.Players[cur]
	for i, p := range gs.Players {
		if i != cur {
			vAssert(vAnd(vAnd(p.Pot == pre.pot[i], p.Wager == pre.wager[i]), vAnd(p.StackSize == pre.stack[i], p.Bankroll == pre.bank[i])), "C01.other-seats-chips-untouched")
			vAssert(p.Fold == pre.fold[i], "C04.other-seats-fold-flag-untouched")
		}
		vAssert(p.Bankroll == pre.bank[i], "C01.bankroll-constant")
		vAssert(p.Pot == pre.pot[i], "C01.pot-moves-only-between-streets")
	}
	switch op {
	case 0, 1, 6:
		vhUnchangedAccounts(pre, gs, "C11.check-fold-pass-move-no-chips")
		if op == 0 {
			vAssert(meS.Fold, "C11.fold-folds")
		}
	case 2:
		vAssert(meS.Wager == st.CurrentWager, "C11.call-levels-with-wager-to-match")
		vAssert(vImplies(pre.cw >= pre.bb, st.CurrentWager == pre.cw), "C11.call-does-not-raise")
	case 3:
		vAssert(meS.StackSize == 0 && meS.Wager == pre.init[cur], "C11.allin-commits-remaining-stack")
	case 4:
		vAssert(vImplies(vAnd(x > 0, x < pre.stack[cur]), st.CurrentWager == x), "C11.bet-sets-wager-to-match")
	case 5:
		if gs.Meta.Limit == "no" {
			full := vAnd(vAnd(x > pre.cw, x < pre.init[cur]), x-pre.cw >= pre.prs)
			vAssert(vImplies(full, vAnd(vAnd(st.CurrentWager == x, st.CurrentRaiser == cur), st.PreviousRaiseSize == x-pre.cw)), "C12.full-raise-carried-out-exactly")
			vAssert(vImplies(full, meS.Wager == x), "C12.full-raise-wager")
		}
		under := vAnd(x > pre.cw, x-pre.cw < pre.prs)
		vAssert(vImplies(under, meS.StackSize == 0), "C12.undersized-raise-only-as-allin")
		vAssert(x >= pre.cw, "C12.raise-below-wager-refused")
	}
	// the minimum raise is the size of the last bet or raise that was at least the minimum in force: an
	// action that lifts the wager to match by less (a short all-in, a call) leaves it alone
	inc := st.CurrentWager - pre.cw
	grown := vAnd(inc > 0, inc >= pre.prs)
	// (Bet always records the requested amount as the minimum, also above the stack and in pre-states
	// where a minimum is already in force with no wager standing; the statement speaks of bets below
	// the stack only, so a bet is held to exactly that)
	if st.CurrentEvent != "RoundStarted" {
		// the round is over: the minimum raise is of no consequence any more (it is reset for the next street)
	} else if op == 3 || (op == 5 && vFork(x != pre.cw)) { // a raise to the standing wager is carried out as a call
		vAssert(vAnd(vImplies(grown, st.PreviousRaiseSize == inc), vImplies(!grown, st.PreviousRaiseSize == pre.prs)), "C12.minimum-raise-changes-only-by-a-bet-or-raise-of-at-least-its-size")
	} else if op != 4 {
		// fold, check, call (also the call that completes a short big blind), pass: never
		vAssert(st.PreviousRaiseSize == pre.prs, "C12.minimum-raise-untouched-by-fold-check-call-pass")
	} else {
		vAssert(vImplies(vAnd(x > 0, x < pre.stack[cur]), st.PreviousRaiseSize == x), "C12.bet-size-becomes-the-minimum-raise")
	}
	// ---- what comes next (C04 order, C05 closure, C06 wait point) ----
	if st.CurrentEvent == "RoundStarted" {
		nxt := (cur + 1) % n
		vAssert(st.CurrentPlayer == nxt, "C04.turn-passes-clockwise")
		for i, p := range gs.Players {
			if i == nxt {
				want := g.GetAvailableActions(g.Player(i))
				vAssert(len(p.AllowedActions) > 0 && vhSameList(p.AllowedActions, want), "C04.next-seat-offered-its-actions")
				if vFork(vOr(p.Fold, p.StackSize == 0)) {
					vAssert(len(p.AllowedActions) == 1 && p.AllowedActions[0] == "pass", "C04.folded-or-allin-seat-only-passes")
				}
			} else {
				vAssert(len(p.AllowedActions) == 0, "C04.exactly-one-seat-offered-actions")
			}
		}
		vhInvTurnAssert(gs, nxt, "")
		{
			alive, movable := int64(0), int64(0)
			for _, p := range gs.Players {
				alive += vIte(!p.Fold, 1, 0)
				movable += vIte(vAnd(!p.Fold, p.StackSize > 0), 1, 0)
			}
			vAssert(alive >= 2 && movable >= 1, "C05.inv-betting-needs-two-alive-one-with-chips")
		}
		// progress (C05 one lap, C06 termination): chips behind shrink, or the number of seats still to act does
		stackSum := int64(0)
		notActed := int64(0)
		for _, p := range gs.Players {
			stackSum += p.StackSize
			notActed += vIte(!p.Acted, 1, 0)
		}
		vAssert(vOr(stackSum < pre.stackSum, vAnd(stackSum == pre.stackSum, notActed < pre.notActed)), "C06.progress-ranking-decreases")
		vAssert(vImplies(vAnd(st.CurrentWager == pre.cw, meS.StackSize > 0), notActed == pre.notActed-1), "C05.one-seat-fewer-to-act-when-no-increase")
		vCover("act.continues")
	} else {
		vAssert(st.CurrentEvent == "RoundClosed", "C06.after-action-round-started-or-closed")
		for _, p := range gs.Players {
			vAssert(len(p.AllowedActions) == 0, "C04.nobody-offered-actions-after-closure")
			vAssert(!p.Acted, "C05.inv-closed-round-has-cleared-turn-flags")
		}
		vhPotsTotal(gs, "@closed")
		// C05: closed only when one seat is left, nobody can move, or everybody with chips has
		// matched the wager and has acted since it last went up
		alive := int64(0)
		movable := int64(0)
		for _, p := range gs.Players {
			alive += vIte(!p.Fold, 1, 0)
			movable += vIte(vAnd(!p.Fold, p.StackSize > 0), 1, 0)
		}
		settled := true
		for _, p := range gs.Players {
			settled = vAnd(settled, vImplies(vAnd(!p.Fold, p.StackSize > 0), p.Wager == st.CurrentWager))
		}
		// the flags are cleared at closure; by Inv_act (A) "the next seat had acted" means every other
		// seat has had its turn since the wager last went up
		turnsDone := true
		for i := 0; i < n; i++ {
			if i != cur {
				turnsDone = vAnd(turnsDone, pre.acted[i])
			}
		}
		vAssert(vOr(vOr(alive == 1, movable == 0), vAnd(vAnd(settled, turnsDone), st.CurrentWager == pre.cw)), "C05.closed-only-when-settled")
		// C04: the turn passes seat by seat - folded and all-in seats are asked to pass too - so the
		// round cannot close while a seat has not had its turn
		vAssert(vOr(vOr(alive == 1, movable == 0), turnsDone), "C04.round-closes-only-after-every-seat-had-its-turn")
		vCover("act.closes")
	}
}

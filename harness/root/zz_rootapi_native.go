//go:build verif

package pokerface

import (
	"bytes"
	"encoding/json"
)

func vCloneState(gs *GameState) *GameState {
	data, err := json.Marshal(gs)
	if err != nil {
		panic(err)
	}
	var c GameState
	if err := json.Unmarshal(data, &c); err != nil {
		panic(err)
	}
	return &c
}

func vSameState(a, b *GameState) bool {
	x, _ := json.Marshal(a)
	y, _ := json.Marshal(b)
	return bytes.Equal(x, y)
}

//go:build verif

package pokerface

import "github.com/weedbox/pokerface/combination"

// C10 — each player's reported hand is their true best hand.
// The real selection machinery (GetAllPossibleCombinations, GetAllPowersByPlayer, CalculatePlayerPower,
// UpdateCombinationOfAllPlayers) runs with the evaluator replaced by an uninterpreted function of the
// selection (symbolic score and category per card set): the reported power must be the maximum over
// all admissible selections, enumerated independently here, and type/cards must belong to a selection
// attaining it. Nothing but Combination may be written.

func c10name(cards []string) string {
	s := append([]string{}, cards...)
	for i := 1; i < len(s); i++ {
		for j := i; j > 0 && s[j] < s[j-1]; j-- {
			s[j], s[j-1] = s[j-1], s[j]
		}
	}
	name := ""
	for _, c := range s {
		name += c
	}
	return name
}

// c10subsets: all k-subsets of cards (as index lists), in lexicographic order.
func c10subsets(n, k int) [][]int {
	var res [][]int
	var rec func(start int, cur []int)
	rec = func(start int, cur []int) {
		if len(cur) == k {
			res = append(res, append([]int{}, cur...))
			return
		}
		for i := start; i < n; i++ {
			rec(i+1, append(cur, i))
		}
	}
	rec(0, nil)
	return res
}

func c10admissible(hole, board []string, required int) [][]string {
	var out [][]string
	if required == 0 {
		all := append(append([]string{}, hole...), board...)
		k := 5
		if len(all) < 5 {
			k = len(all)
		}
		for _, idx := range c10subsets(len(all), k) {
			sel := []string{}
			for _, i := range idx {
				sel = append(sel, all[i])
			}
			out = append(out, sel)
		}
		return out
	}
	for _, hi := range c10subsets(len(hole), required) {
		for _, bi := range c10subsets(len(board), 5-required) {
			sel := []string{}
			for _, i := range hi {
				sel = append(sel, hole[i])
			}
			for _, i := range bi {
				sel = append(sel, board[i])
			}
			out = append(out, sel)
		}
	}
	return out
}

func c10sameSet(a, b []string) bool {
	return len(a) == len(b) && c10name(a) == c10name(b)
}

func Harness_C10(holeN int, required int, boardN int, seats int) {
	deck := NewStandardDeckCards()
	gs := vhBuildState(seats, 0, 0, 0, 0, "RoundInitialized")
	gs.Meta.HoleCardsCount = holeN
	gs.Meta.RequiredHoleCardsCount = required
	dp := 0
	for _, p := range gs.Players {
		p.HoleCards = deck[dp : dp+holeN]
		dp += holeN
		p.Bankroll = vInt64("bankroll")
		p.StackSize = vInt64("stack")
		// "for every player": a folded seat's reported hand follows the board like everybody else's
		p.Fold = vBool("fold")
	}
	gs.Status.Board = append([]string{}, deck[dp:dp+boardN]...)
	gs.Status.CurrentDeckPosition = dp + boardN
	g := NewGameFromState(gs)
	// admissible selections, enumerated from the rules (not from the implementation)
	type sel struct {
		cards []string
		score int64
		comb  int64
	}
	all := make([][]sel, seats)
	for i, p := range gs.Players {
		for _, cs := range c10admissible(p.HoleCards, gs.Status.Board, required) {
			name := c10name(cs)
			sc := vNamedInt("score:" + name)
			cb := vNamedInt("comb:" + name)
			vAssume(sc > 0)
			vAssume(sc < (1 << 40))
			vAssume(cb >= 0)
			vAssume(cb <= 8)
			all[i] = append(all[i], sel{cs, sc, cb})
		}
	}
	// (i) the produced selections are exactly the admissible ones, each once
	for i, p := range gs.Players {
		got := g.GetAllPossibileCombinations(p, required)
		vAssert(len(got) == len(all[i]), "C10.number-of-selections")
		for _, want := range all[i] {
			cnt := 0
			for _, gsel := range got {
				if c10sameSet(gsel, want.cards) {
					cnt++
				}
			}
			vAssert(cnt == 1, "C10.every-admissible-selection-once")
		}
		for _, gsel := range got {
			vAssert(len(gsel) == 5 || len(p.HoleCards)+len(gs.Status.Board) < 5, "C10.selection-has-five-cards")
		}
	}
	before := vCloneState(gs)
	err := g.UpdateCombinationOfAllPlayers()
	vAssert(err == nil, "C10.update-succeeds")
	for i, p := range gs.Players {
		mx := int64(0)
		for _, s := range all[i] {
			mx = vIte(s.score > mx, s.score, mx)
		}
		vAssert(p.Combination != nil, "C10.combination-reported")
		if p.Combination == nil {
			continue
		}
		vAssert(int64(p.Combination.Power) == mx, "C10.reported-power-is-the-best")
		// type, cards and power describe one and the same admissible selection
		found := false
		for _, s := range all[i] {
			if c10sameSet(p.Combination.Cards, s.cards) {
				same := vAnd(int64(p.Combination.Power) == s.score, p.Combination.Type == combination.CombinationSymbol[combination.Combination(s.comb)])
				vAssert(same, "C10.type-cards-power-describe-one-hand")
				found = true
			}
		}
		vAssert(found, "C10.reported-cards-are-an-admissible-selection")
		vObserve("power", int64(p.Combination.Power))
	}
	// (iii) frame: nothing but Combination is written
	after := vCloneState(gs)
	for i := range after.Players {
		after.Players[i].Combination = before.Players[i].Combination
	}
	vAssert(vSameState(before, after), "C10.only-combination-written")
	vCover("C10.evaluated")
}

//go:build verif

package pokerface

import "github.com/weedbox/pokerface/pot"

// C15 — player and observer views never leak hidden cards.
// A fully symbolic state (cards as symbolic 2-byte strings, fold flags, viewer index incl. out of
// range, event = GameClosed or not) is prepared with AsPlayer / AsObserver; the result must equal the
// state obtained from the snapshot by the hiding rules of the statement and nothing else: every leaf
// that is not a secret is unchanged, every secret is gone. This holds for every state, reachable or not.

var c15Events = []string{"GameClosed", "RoundStarted", "ReadyRequested", "RoundClosed", "SettlementCompleted", ""}

var c15Rounds = []string{"", "preflop", "flop", "turn", "river"}

func c15card(name string) string { return vSymString(name, 2) }

func c15State(n int, ev int) *GameState {
	gs := &GameState{GameID: "g", CreatedAt: vInt64("created"), UpdatedAt: vInt64("updated")}
	gs.Meta.Deck = []string{c15card("deck0"), c15card("deck1"), c15card("deck2")}
	gs.Meta.Ante = vInt64("ante")
	gs.Meta.Limit = "no"
	gs.Meta.HoleCardsCount = 2
	gs.Status.Burned = []string{c15card("burn0"), c15card("burn1")}
	gs.Status.Board = []string{c15card("board0"), c15card("board1"), c15card("board2")}
	gs.Status.CurrentEvent = c15Events[ev]
	gs.Status.Round = c15Rounds[vChoice("round", len(c15Rounds))] // hiding must not depend on the street
	gs.Status.CurrentWager = vInt64("cw")
	gs.Status.CurrentPlayer = 0
	gs.Status.CurrentDeckPosition = vInt("deckpos") // any, also 0 (nothing dealt yet) and out of range
	gs.Status.Pots = []*pot.Pot{}
	gs.Status.LastAction = &Action{Source: 0, Type: "check", Value: vInt64("lav")}
	for i := 0; i < n; i++ {
		ps := &PlayerState{
			Idx:            i,
			Positions:      []string{},
			AllowedActions: []string{},
			Fold:           vBool("fold"),
			Acted:          vBool("acted"),
			Bankroll:       vInt64("bankroll"),
			StackSize:      vInt64("stack"),
			Wager:          vInt64("wager"),
			Pot:            vInt64("pot"),
			HoleCards:      []string{c15card("hole-a"), c15card("hole-b")},
			Combination:    &CombinationInfo{Type: "Pair", Cards: []string{c15card("comb")}, Power: vInt("power")},
		}
		gs.Players = append(gs.Players, ps)
	}
	return gs
}

// c15Expect applies the hiding rules of the statement to a snapshot.
func c15Expect(gs *GameState, viewer int, observer bool) {
	gs.Meta.Deck = []string{}
	gs.Status.Burned = []string{}
	closed := gs.Status.CurrentEvent == "GameClosed"
	for _, p := range gs.Players {
		if !observer && vFork(p.Idx == viewer) {
			continue // own cards stay
		}
		if !closed || vFork(p.Fold) {
			p.HoleCards = []string{}
			p.Combination = nil
		}
	}
}

func Harness_C15(n int, ev int, observer int) {
	gs := c15State(n, ev)
	viewer := vInt("viewer") // any integer, also out of range
	want := vCloneState(gs)
	c15Expect(want, viewer, observer != 0)
	if observer != 0 {
		gs.AsObserver()
	} else {
		gs.AsPlayer(viewer)
	}
	vAssert(len(gs.Meta.Deck) == 0, "C15.deck-hidden")
	vAssert(len(gs.Status.Burned) == 0, "C15.burned-hidden")
	closed := gs.Status.CurrentEvent == "GameClosed"
	for _, p := range gs.Players {
		mine := observer == 0 && vFork(p.Idx == viewer)
		if mine {
			vAssert(len(p.HoleCards) == 2 && p.Combination != nil, "C15.own-cards-kept")
			vCover("C15.own")
			continue
		}
		if !closed {
			vAssert(len(p.HoleCards) == 0 && p.Combination == nil, "C15.others-hidden-before-close")
			vCover("C15.hidden-before-close")
		} else if vFork(p.Fold) {
			vAssert(len(p.HoleCards) == 0 && p.Combination == nil, "C15.folded-hidden-after-close")
			vCover("C15.folded-hidden")
		}
	}
	vAssert(vSameState(want, gs), "C15.exactly-the-secrets-removed")
}

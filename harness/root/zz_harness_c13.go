//go:build verif

package pokerface

// C13 — antes and blinds are posted by the right seats in the right amounts.
// Bounded unrolling from the real initial state: Start, ReadyForAll, PayAnte, PayBlinds, with every
// stake and bankroll symbolic. C13 has no history quantifier, so this decides it within the shape bound.
// The same harness carries the Start()/first-steps clauses of C06 and the accounting clauses of C01.

func Harness_C13(n int, dealer int, layout int, anteOn int) {
	opts := NewStardardGameOptions()
	opts.Deck = NewStandardDeckCards()
	ante := int64(0)
	if anteOn != 0 {
		ante = vInt64("ante")
		vAssume(ante > 0)
		vAssume(ante < vhAmountLimit)
	}
	sb := vInt64("sb")
	bb := vInt64("bb")
	db := vInt64("dealerblind")
	vAssume(sb >= 0)
	vAssume(sb < vhAmountLimit)
	vAssume(bb >= 0)
	vAssume(bb < vhAmountLimit)
	vAssume(db >= 0)
	vAssume(db < vhAmountLimit)
	if layout == 2 {
		vAssume(sb == 0)
		vAssume(bb == 0)
		vAssume(db > 0)
	}
	if layout == 1 {
		// dead small blind: nobody holds the sb role
	}
	pos := vhPositions(n, dealer, layout)
	if n == 2 {
		// the dealer also holds the small blind: with both sizes positive the statement does not say
		// which is posted; outside the claim
		vAssume(vOr(sb == 0, db == 0))
	}
	opts.Ante = ante
	opts.Blind = BlindSetting{Dealer: db, SB: sb, BB: bb}
	bank := make([]int64, n)
	for i := 0; i < n; i++ {
		bank[i] = vInt64("bankroll")
		vAssume(bank[i] > 0)
		vAssume(bank[i] < vhAmountLimit)
		opts.Players = append(opts.Players, &PlayerSetting{Bankroll: bank[i], Positions: pos[i]})
	}
	g := NewGame(opts)
	gs := g.GetState()
	err := g.Start()
	vAssert(err == nil, "C06.start-succeeds")
	vAssert(gs.Status.CurrentEvent == "ReadyRequested", "C06.after-start-waits-for-ready")
	vhAccounts(gs, "@start")
	err = g.ReadyForAll()
	vAssert(err == nil, "C06.ready-succeeds")
	if anteOn != 0 {
		vAssert(gs.Status.CurrentEvent == "AnteRequested", "C06.waits-for-ante")
		vAssert(g.PayBlinds() != nil, "C04.blinds-refused-while-ante-due")
		err = g.PayAnte()
		vAssert(err == nil, "C06.ante-succeeds")
		vhPotsTotal(gs, "@ante")
	}
	afterAnte := make([]int64, n)
	for i, p := range gs.Players {
		paid := vhMin(ante, bank[i])
		vAssert(p.Pot == paid, "C13.ante-paid-capped")
		vAssert(p.Wager == 0, "C13.ante-not-a-wager")
		afterAnte[i] = bank[i] - paid
		vAssert(p.StackSize == afterAnte[i], "C13.stack-after-ante")
	}
	vAssert(gs.Status.CurrentWager == 0, "C13.ante-does-not-count-toward-wager")
	anyBlind := vOr(vOr(bb > 0, sb > 0), db > 0)
	if vFork(anyBlind) {
		// KF-C13-NOBLINDS region: no small blind, no dealer blind, big blind configured
		vAssertK(gs.Status.CurrentEvent == "BlindsRequested", "C13.waits-for-blinds", "KF-C13-NOBLINDS", vAnd(vAnd(sb == 0, db == 0), bb > 0))
		vAssert(gs.Status.CurrentEvent == "BlindsRequested" && gs.Status.Round == "preflop", "C06.after-ante-the-hand-waits-for-blinds-on-the-preflop")
		if gs.Status.CurrentEvent != "BlindsRequested" {
			return
		}
		vAssert(g.PayAnte() != nil, "C04.ante-refused-while-blinds-due")
		err = g.PayBlinds()
		vAssert(err == nil, "C06.blinds-succeed")
	} else {
		if gs.Status.CurrentEvent == "BlindsRequested" {
			err = g.PayBlinds()
			vAssert(err == nil, "C06.blinds-succeed")
		}
	}
	vAssert(gs.Status.CurrentEvent == "ReadyRequested", "C06.waits-for-ready-before-preflop")
	vAssert(gs.Status.Round == "preflop", "C06.first-street-is-preflop")
	// who posts what
	largest := int64(0)
	for i, p := range gs.Players {
		due := int64(0)
		switch {
		case vhHas(pos[i], "bb") && vFork(bb > 0):
			due = bb
		case vhHas(pos[i], "sb") && vFork(sb > 0):
			due = sb
		case vhHas(pos[i], "dealer") && vFork(db > 0):
			due = db
		}
		posted := vhMin(due, afterAnte[i])
		vAssert(p.Wager == posted, "C13.blind-posted-capped")
		vAssert(p.StackSize == afterAnte[i]-posted, "C13.stack-after-blind")
		vAssert(p.Pot == bank[i]-afterAnte[i], "C13.pot-unchanged-by-blind")
		largest = vhMax(largest, posted)
		vObserve("wager", p.Wager)
	}
	vAssert(gs.Status.CurrentWager == largest, "C13.wager-to-match-is-largest-blind-posted")
	if vFork(bb > 0) {
		vAssert(gs.Status.PreviousRaiseSize == bb, "C13.min-raise-is-big-blind")
	}
	vhAccounts(gs, "@blinds")
	// Inv_ready before the flop (base case of the induction in Harness_Ready): nobody has acted or folded
	for _, p := range gs.Players {
		vAssert(!p.Acted && !p.Fold && len(p.AllowedActions) == 0, "C05.inv-ready-preflop@base")
	}
	vCover("C13.blinds-posted")
	if vFork(largest < bb) {
		vCover("C13.short-big-blind")
	}
}

//go:build verif

package pokerface

// Step harnesses for the other wait points of the hand (DESIGN §3.1):
//   Harness_Ready : W_ready(r)  --ReadyForAll-->  W_act(r) | W_closed(r)      (base case of Inv_act)
//   Harness_Next  : W_closed(r) --Next-->  W_ready(r+1) | W_closed(r+1) | W_end
//   Harness_Start : Start() validation on symbolic options
// The unrolling from the real initial state through antes and blinds is Harness_C13.

// vhRefuseAll: every operation of the alphabet except `allowOp` is refused and leaves the state untouched.
// allowOp: "" none, "ready", "next".
func vhRefuseAll(g *game, n int, allowOp string, tag string) {
	if !vWants("C04.") && !vWants("C06.") {
		return
	}
	gs := g.gs
	before := vCloneState(gs)
	x := vInt64("amount.refused")
	for j := 0; j < n; j++ {
		for op := 0; op < 8; op++ {
			err := vhDo(g.Player(j), op, x)
			same := vSameState(before, gs)
			vAssertK(err != nil, "C04.action-refused-outside-betting"+tag, "KF-C04-PASS-NIL", vAnd(op == 6, same))
			vAssert(same, "C04.refused-action-leaves-state-unchanged"+tag)
			vAssert(same, "C06.closed-or-waiting-hand-accepts-no-action"+tag)
		}
	}
	if allowOp != "next" {
		vAssert(g.Next() != nil, "C04.next-refused"+tag)
	}
	if allowOp != "ready" {
		vAssert(g.ReadyForAll() != nil, "C04.ready-refused"+tag)
	}
	vAssert(g.PayAnte() != nil, "C04.ante-refused"+tag)
	vAssert(g.PayBlinds() != nil, "C04.blinds-refused"+tag)
	same := vSameState(before, gs)
	vAssert(same, "C04.refused-table-op-leaves-state-unchanged"+tag)
	vAssert(same, "C06.table-op-outside-its-phase-changes-nothing"+tag)
}

// Harness_Ready: ReadyForAll at "ReadyRequested" on the given street.
func Harness_Ready(n int, dealer int, layout int, street int) {
	gs := vhBuildState(n, dealer, layout, street, 0, "ReadyRequested")
	pre := vhHavocAccounts(gs)
	st := &gs.Status
	st.CurrentPlayer = dealer
	// Inv_ready: nobody has acted; before the flop nobody has folded; on later streets no chips are on
	// the table and at least two seats can still bet (PrepareRound closes the street otherwise)
	for i, p := range gs.Players {
		vAssume(!p.Acted)
		if street == 0 {
			vAssume(!pre.fold[i])
		} else {
			vAssume(pre.wager[i] == 0)
		}
	}
	if street > 0 {
		vAssume(pre.movable >= 2)
		vAssume(pre.prs == 0)
	}
	vAssume(pre.alive >= 2)
	g := NewGameFromState(gs)
	vhRefuseAll(g, n, "ready", "@ready")
	err := g.ReadyForAll()
	vAssert(err == nil, "C06.ready-succeeds")
	pos := vhPositions(n, dealer, layout)
	if st.CurrentEvent == "RoundStarted" {
		first := (dealer + 1) % n
		if street == 0 {
			first = (vhSeatWith(pos, "bb") + 1) % n
		}
		vAssert(st.CurrentPlayer == first, "C04.first-to-act")
		for i, p := range gs.Players {
			if i == first {
				want := g.GetAvailableActions(g.Player(i))
				vAssert(len(p.AllowedActions) > 0 && vhSameList(p.AllowedActions, want), "C04.first-seat-offered-its-actions")
				if vFork(vOr(p.Fold, p.StackSize == 0)) {
					vAssert(len(p.AllowedActions) == 1 && p.AllowedActions[0] == "pass", "C04.folded-or-allin-seat-only-passes")
				}
			} else {
				vAssert(len(p.AllowedActions) == 0, "C04.exactly-one-seat-offered-actions")
			}
		}
		// base case of Inv_act
		vhInvTurnAssert(gs, first, "@base")
		alive := int64(0)
		movable := int64(0)
		for _, p := range gs.Players {
			alive += vIte(!p.Fold, 1, 0)
			movable += vIte(vAnd(!p.Fold, p.StackSize > 0), 1, 0)
		}
		vAssert(alive >= 2 && movable >= 1, "C05.inv-betting-needs-two-alive-one-with-chips@base")
		vhAccounts(gs, "@ready")
		vhUnchangedAccounts(pre, gs, "C01.ready-moves-no-chips")
		vCover("ready.betting-opens")
	} else {
		vAssert(st.CurrentEvent == "RoundClosed", "C06.after-ready-round-started-or-closed")
		// C05: closes at once only when nobody can move
		vAssert(pre.movable == 0, "C05.closes-at-once-only-when-nobody-can-move")
		vhUnchangedAccounts(pre, gs, "C01.ready-moves-no-chips")
		for _, p := range gs.Players {
			vAssert(!p.Acted && len(p.AllowedActions) == 0, "C05.inv-closed-round-has-cleared-turn-flags")
		}
		vhPotsTotal(gs, "@ready-closed")
		vCover("ready.closes-at-once")
	}
}

// Harness_Next: Next() at "RoundClosed" on the given street.
func Harness_Next(n int, dealer int, layout int, street int) {
	gs := vhBuildState(n, dealer, layout, street, 0, "RoundClosed")
	pre := vhHavocAccounts(gs)
	st := &gs.Status
	st.CurrentPlayer = (dealer + (n-1)*vChoice("lastactor", 2)) % n
	power := make([]int, n)
	for i, p := range gs.Players {
		vAssume(!p.Acted) // cleared when the round closed
		power[i] = vInt("power")
		vAssume(power[i] > 0)
		vAssume(power[i] < (1 << 40))
		p.Combination.Power = power[i]
	}
	vAssume(pre.alive >= 1)
	g := NewGameFromState(gs)
	g.updatePots() // published when the round closed
	vhRefuseAll(g, n, "next", "@closed")
	boardBefore := len(st.Board)
	burnedBefore := len(st.Burned)
	posBefore := st.CurrentDeckPosition
	hole := make([][]string, n)
	for i, p := range gs.Players {
		hole[i] = append([]string{}, p.HoleCards...) // a copy: "never change" must not compare a slice with itself
	}
	deckBefore := append([]string{}, gs.Meta.Deck...)
	err := g.Next()
	vAssert(err == nil, "C06.next-succeeds")
	// chips: wagers move to the pot, stacks untouched
	for i, p := range gs.Players {
		vAssert(p.Pot == pre.pot[i]+pre.wager[i] && p.Wager == 0, "C01.wagers-swept-into-pot")
		vAssert(p.StackSize == pre.stack[i] && p.InitialStackSize == pre.stack[i] && p.Bankroll == pre.bank[i], "C01.stacks-untouched-by-next")
		vAssert(len(p.HoleCards) == 2 && p.HoleCards[0] == hole[i][0] && p.HoleCards[1] == hole[i][1], "C14.hole-cards-never-change")
	}
	vhAccounts(gs, "@next")
	deck := gs.Meta.Deck
	sameDeck := len(deck) == len(deckBefore)
	for k := 0; sameDeck && k < len(deck); k++ {
		sameDeck = deck[k] == deckBefore[k]
	}
	vAssert(sameDeck, "C14.deck-unchanged-by-play")
	movable := pre.movable
	if st.CurrentEvent == "GameClosed" {
		vAssert(gs.Result != nil, "C06.closed-hand-has-result")
		ended := vFork(pre.alive == 1)
		if ended {
			vAssert(len(st.Board) == boardBefore && len(st.Burned) == burnedBefore && st.CurrentDeckPosition == posBefore, "C05.last-player-standing-ends-without-dealing")
			vCover("next.last-player-standing")
		} else {
			vAssert(street == 3, "C06.showdown-only-after-river")
			vAssert(len(st.Board) == 5, "C05.showdown-on-full-board")
			vCover("next.showdown")
		}
		if gs.Result != nil {
			c := make([]int64, n)
			for i := range c {
				c[i] = pre.pot[i] + pre.wager[i]
			}
			c02check(n, c, pre.fold, power, pre.bank, gs)
		}
		vhRefuseAll(g, n, "", "@end")
		return
	}
	vAssert(pre.alive >= 2, "C05.hand-ends-when-one-player-left")
	vAssert(street < 3, "C06.river-is-the-last-street")
	if street >= 3 {
		return
	}
	vAssert(st.Round == vhRounds[street+1], "C06.streets-in-order")
	// dealing: one burn, then 3 / 1 / 1 board cards from the top of the deck
	add := 1
	if street == 0 {
		add = 3
	}
	vAssert(len(st.Burned) == burnedBefore+1 && len(st.Board) == boardBefore+add && st.CurrentDeckPosition == posBefore+1+add, "C14.one-burn-then-board-cards")
	if len(st.Burned) == burnedBefore+1 && len(st.Board) == boardBefore+add {
		vAssert(st.Burned[burnedBefore] == deck[posBefore], "C14.burn-is-top-of-deck")
		for k := 0; k < add; k++ {
			vAssert(st.Board[boardBefore+k] == deck[posBefore+1+k], "C14.board-from-top-of-deck")
		}
	}
	if st.CurrentEvent == "ReadyRequested" {
		vAssert(movable >= 2, "C05.no-betting-round-with-fewer-than-two-players-with-chips")
		// Inv_ready of the next street
		for _, p := range gs.Players {
			vAssert(!p.Acted && len(p.AllowedActions) == 0, "C04.nobody-offered-actions-while-waiting-for-ready")
		}
		vAssert(st.CurrentWager == 0 && st.CurrentRoundPot == 0 && st.PreviousRaiseSize == 0, "C01.street-starts-with-empty-table")
		vCover("next.betting-street")
	} else {
		vAssert(st.CurrentEvent == "RoundClosed", "C06.after-next-ready-closed-or-end")
		vAssert(movable <= 1, "C05.street-skipped-only-when-fewer-than-two-can-bet")
		for _, p := range gs.Players {
			vAssert(len(p.AllowedActions) == 0, "C04.nobody-offered-actions-on-skipped-street")
			vAssert(!p.Acted, "C05.inv-closed-round-has-cleared-turn-flags")
		}
		vhPotsTotal(gs, "@skipped")
		vCover("next.run-out")
	}
}

// Harness_Start: Start() succeeds exactly for a playable configuration.
func Harness_Start(n int, withDealer int, withDeck int) {
	opts := NewStardardGameOptions()
	if withDeck != 0 {
		opts.Deck = NewStandardDeckCards()
	}
	allPositive := true
	for i := 0; i < n; i++ {
		b := vInt64("bankroll")
		vAssume(b < vhAmountLimit)
		vAssume(b > -vhAmountLimit)
		pos := []string{}
		if i == 0 && withDealer != 0 {
			pos = []string{"dealer"}
		}
		if i == 1 {
			pos = []string{"bb"}
		}
		opts.Players = append(opts.Players, &PlayerSetting{Bankroll: b, Positions: pos})
		allPositive = vAnd(allPositive, b > 0)
	}
	g := NewGame(opts)
	err := g.Start()
	valid := vAnd(allPositive, n >= 2 && withDealer != 0 && withDeck != 0)
	vAssert((err == nil) == valid, "C06.start-iff-playable")
	if err == nil {
		vAssert(g.gs.Status.CurrentEvent == "ReadyRequested", "C06.after-start-waits-for-ready")
		vCover("start.accepted")
	} else {
		vAssert(g.gs.Status.CurrentEvent == "", "C06.refused-start-starts-nothing")
		vCover("start.refused")
	}
}

//go:build verif

package pot

// C16 — published pots partition the chips into correctly nested side pots.

func c16min(a, b int64) int64 {
	if a < b {
		return a
	}
	return b
}

// c16perm returns the idx-th permutation of 0..n-1 (lexicographic).
func c16perm(n int, idx int) []int {
	avail := make([]int, n)
	for i := range avail {
		avail[i] = i
	}
	fact := 1
	for i := 2; i < n; i++ {
		fact *= i
	}
	res := make([]int, 0, n)
	for i := n - 1; i >= 0; i-- {
		k := 0
		if fact > 0 {
			k = idx / fact
			idx = idx % fact
		}
		res = append(res, avail[k])
		avail = append(avail[:k], avail[k+1:]...)
		if i > 0 {
			fact /= i
		}
	}
	return res
}

func Harness_C16(n int, order int, folds int) {
	c := make([]int64, n)
	f := make([]bool, n)
	sum := int64(0)
	for i := 0; i < n; i++ {
		c[i] = vInt64("c")
		vAssume(c[i] >= 0)
		vAssume(c[i] < (1 << 56))
		f[i] = (folds>>uint(i))&1 == 1
		sum += c[i]
	}
	perm := c16perm(n, order)
	ll := NewLevelList()
	for _, i := range perm {
		ll.AddContributor(c[i], i, f[i])
	}
	pots := ll.GetPots()
	c16check(n, c, f, sum, pots)
}

func c16check(n int, c []int64, f []bool, sum int64, pots []*Pot) {
	prev := int64(0)
	total := int64(0)
	prevElig := int64(0)
	vAssert(len(pots) >= 1, "C16.some-pot")
	for k, p := range pots {
		if k > 0 {
			vAssert(p.Level > prev, "C16.levels-increasing")
		} else {
			vAssert(p.Level >= 0, "C16.first-level-nonneg")
		}
		exp := int64(0)
		elig := int64(0)
		for i := 0; i < n; i++ {
			exp += c16min(c[i], p.Level) - c16min(c[i], prev)
			reached := vAnd(!f[i], c[i] >= p.Level)
			w, ok := p.Contributors[i]
			vAssert(vImplies(reached, vAnd(ok, w == p.Level-prev)), "C16.eligible-listed-with-pot-amount")
			vAssert(vImplies(vAnd(!f[i], !reached), !ok), "C16.not-eligible-not-listed")
			elig += vIte(reached, 1, 0)
		}
		vAssert(p.Total == exp, "C16.pot-total")
		vAssert(p.Wager == p.Level-prev, "C16.pot-wager")
		if k > 0 {
			vAssert(elig < prevElig, "C16.eligible-strictly-shrinks")
		}
		for idx := range p.Contributors {
			vAssert(idx >= 0 && idx < n, "C16.contributor-known")
		}
		prevElig = elig
		prev = p.Level
		total += p.Total
	}
	vAssert(total == sum, "C16.totals-sum")
	vObserve("npots", int64(len(pots)))
	vObserve("total", total)
	if len(pots) > 0 {
		vObserve("pot0.total", pots[0].Total)
		vObserve("potlast.level", pots[len(pots)-1].Level)
	}
	vCover("C16.checked")
	if len(pots) >= 3 {
		vCover("C16.three-pots")
	}
}

//go:build verif

package regulator

import "fmt"

// Regulator harnesses (DESIGN §3.3): C09, C19, C20.
// Bounded unrolling from NewRegulator with the settings (max per table, min initial) symbolic:
// N registrants, start, then a history of table syncs with eliminations carried out the way the
// repository's own tests do; real membership is tracked by the harness ("a table that follows
// instructions"), every callback is recorded.

type regWorld struct {
	r        *regulator
	max, min int
	members  map[string][]string // real membership per live table
	order    []string            // live tables in creation order
	nextID   int
	alive    map[string]bool // registered and not eliminated
	started  bool
	regs     int      // registrants so far
	initial  bool     // inside the initial allocation
	broken   []string // ids of tables that were told to break
}

func regNew() *regWorld {
	w := &regWorld{members: map[string][]string{}, alive: map[string]bool{}}
	w.max = vInt("max")
	w.min = vInt("min")
	vAssume(w.min >= 2)
	vAssume(w.min <= w.max)
	vAssume(w.max <= 10)
	reg := NewRegulator(
		MaxPlayersPerTable(w.max),
		MinInitialPlayers(w.min),
		WithRequestTableFn(func(players []string) (string, error) {
			// KF-C19-ALLOC: allocateTables can ask a new table to hold more than max players
			vAssertK(len(players) <= w.max, "C19.new-table-within-capacity", "KF-C19-ALLOC", true)
			vAssert(w.started, "C19.no-table-before-start")
			vAssert(w.regs >= w.min, "C19.no-table-before-min-registrants")
			if w.initial {
				vAssert(len(players) >= w.min, "C19.initial-table-gets-min-players")
			}
			for _, p := range players {
				w.checkHandOut(p)
			}
			id := fmt.Sprintf("T%d", w.nextID)
			w.nextID++
			w.members[id] = append([]string{}, players...)
			w.order = append(w.order, id)
			return id, nil
		}),
		WithAssignPlayersFn(func(tableID string, players []string) error {
			_, ok := w.members[tableID]
			vAssert(ok, "C09.assign-names-a-live-table")
			// C20: whoever a broken table hands back is queued for *another* table, never sent back to it
			vAssert(ok, "C20.nobody-is-assigned-to-a-broken-table")
			vAssert(w.started, "C19.no-assignment-before-start")
			for _, p := range players {
				w.checkHandOut(p)
			}
			before := len(w.members[tableID])
			w.members[tableID] = append(w.members[tableID], players...)
			// a table already over-full from the known allocation defect is not reported a second time
			vAssert(vOr(len(w.members[tableID]) <= w.max, before > w.max), "C19.topped-up-table-within-capacity")
			return nil
		}),
	)
	w.r = reg.(*regulator)
	return w
}

// checkHandOut: a player handed to a table must be alive and seated nowhere else.
func (w *regWorld) checkHandOut(p string) {
	vAssert(w.alive[p], "C09.handed-out-player-is-registered-and-not-eliminated")
	for _, ms := range w.members {
		for _, m := range ms {
			vAssert(m != p, "C09.player-never-handed-out-twice")
		}
	}
}

// regCheck: every alive player is in exactly one place; the regulator's counters are the real numbers.
func (w *regWorld) regCheck(tag string) {
	seen := map[string]int{}
	for _, p := range w.r.waitingQueue {
		seen[p]++
	}
	total := len(w.r.waitingQueue)
	for _, id := range w.order {
		ms := w.members[id]
		total += len(ms)
		for _, p := range ms {
			seen[p]++
		}
		t := w.r.tables[id]
		if t != nil {
			vTrace(tag+" "+id+" count", int64(t.PlayerCount))
			vTrace(tag+" "+id+" real", int64(len(ms)))
			vTrace(tag+" "+id+" required", int64(t.Required))
		}
		vAssert(t != nil, "C09.live-table-known-to-regulator"+tag)
		if t != nil {
			vAssert(t.PlayerCount == len(ms), "C09.table-count-is-real-count"+tag)
		}
	}
	nAlive := 0
	for p, a := range w.alive {
		if a {
			nAlive++
			vAssert(seen[p] == 1, "C09.alive-player-in-exactly-one-place"+tag)
		} else {
			vAssert(seen[p] == 0, "C09.eliminated-player-nowhere"+tag)
		}
	}
	vAssert(total == nAlive, "C09.nobody-unknown-in-queue-or-tables"+tag)
	vAssert(w.r.GetPlayerCount() == nAlive, "C09.player-total-is-real-total"+tag)
	vAssert(w.r.GetTableCount() == len(w.order) && len(w.r.tables) == len(w.order), "C09.table-count-is-real-count-of-tables"+tag)
}

// regSnap / regSame: the whole bookkeeping of the regulator, for "refused without changing anything".
type regSnapshot struct {
	playerCount, tableCount int
	status                  CompetitionStatus
	queue                   []string
	ids                     []string
	count, required         []int
}

func (w *regWorld) regSnap() *regSnapshot {
	s := &regSnapshot{playerCount: w.r.playerCount, tableCount: w.r.tableCount, status: w.r.status}
	s.queue = append(s.queue, w.r.waitingQueue...)
	for _, id := range w.order {
		if t := w.r.tables[id]; t != nil {
			s.ids = append(s.ids, id)
			s.count = append(s.count, t.PlayerCount)
			s.required = append(s.required, t.Required)
		}
	}
	return s
}

func (w *regWorld) regSame(a *regSnapshot) bool {
	b := w.regSnap()
	if a.playerCount != b.playerCount || a.tableCount != b.tableCount || a.status != b.status {
		return false
	}
	if len(a.queue) != len(b.queue) || len(a.ids) != len(b.ids) || len(w.r.tables) != len(a.ids) {
		return false
	}
	for i := range a.queue {
		if a.queue[i] != b.queue[i] {
			return false
		}
	}
	for i := range a.ids {
		if a.ids[i] != b.ids[i] || a.count[i] != b.count[i] || a.required[i] != b.required[i] {
			return false
		}
	}
	return true
}

func (w *regWorld) register(k int) {
	names := make([]string, 0, k)
	for i := 0; i < k; i++ {
		n := fmt.Sprintf("p%d", w.regs)
		w.regs++
		w.alive[n] = true
		names = append(names, n)
	}
	err := w.r.AddPlayers(names)
	vAssert(err == nil, "C09.registration-accepted-before-deadline")
}

// sync carries out one table's sync: `out` of its members were eliminated.
// returns whether the regulator asked for anything (release / receive / break).
func (w *regWorld) sync(id string, out int) bool {
	ms := w.members[id]
	if out > len(ms) {
		out = len(ms)
	}
	for _, p := range ms[:out] {
		w.alive[p] = false
	}
	ms = ms[out:]
	w.members[id] = ms
	rel, incoming, err := w.r.SyncState(id, out)
	vTrace("sync "+id+" rel", int64(rel))
	vTrace("sync "+id+" incoming", int64(len(incoming)))
	vAssert(err == nil, "C09.sync-of-live-table-accepted")
	busy := false
	if w.r.GetTable(id) == nil {
		// told to break: hands back all of its players, each is queued or handed to another table
		vAssert(rel == len(ms), "C20.break-returns-all-players")
		vAssert(len(incoming) == 0, "C20.broken-table-receives-nobody")
		delete(w.members, id)
		w.broken = append(w.broken, id)
		no := w.order[:0:0]
		for _, o := range w.order {
			if o != id {
				no = append(no, o)
			}
		}
		w.order = no
		err = w.r.ReleasePlayers(id, ms)
		vAssert(err == nil, "C09.release-accepted")
		// each of them is queued for another table (or already handed to one)
		for _, p := range ms {
			places := 0
			for _, q := range w.r.waitingQueue {
				if q == p {
					places++
				}
			}
			for _, oms := range w.members {
				for _, m := range oms {
					if m == p {
						places++
					}
				}
			}
			vAssert(places == 1, "C20.player-of-broken-table-queued-for-another-table")
		}
		vCover("reg.break")
		return true
	}
	vAssert(rel >= 0 && rel <= len(ms), "C09.release-count-within-table")
	if rel > 0 && rel <= len(ms) {
		released := ms[:rel]
		w.members[id] = ms[rel:]
		err = w.r.ReleasePlayers(id, released)
		vAssert(err == nil, "C09.release-accepted")
		busy = true
		vCover("reg.release")
	}
	if len(incoming) > 0 {
		for _, p := range incoming {
			w.checkHandOut(p)
		}
		before := len(w.members[id])
		w.members[id] = append(w.members[id], incoming...)
		vAssert(vOr(len(w.members[id]) <= w.max, before > w.max), "C19.topped-up-table-within-capacity")
		busy = true
		vCover("reg.receive")
	}
	return busy
}

// Harness_Reg_Unroll: n registrants in one batch before the start, start, late registrants, then k syncs.
func Harness_Reg_Unroll(n int, late int, k int, sweeps int) {
	w := regNew()
	w.register(n)
	vAssert(len(w.order) == 0, "C19.no-table-before-start")
	w.regCheck("@pending")

	w.started = true
	w.initial = true
	w.r.SetStatus(CompetitionStatus_Normal)
	w.initial = false
	w.regCheck("@started")
	if n >= w.min {
		vCover("reg.started-with-tables")
	}
	if late > 0 {
		w.register(late)
		w.regCheck("@late")
	}
	closed := false
	for step := 0; step < k; step++ {
		if len(w.order) == 0 {
			break
		}
		ti := vChoice("table", len(w.order))
		out := vChoice("out", 3)
		if !closed && vChoice("close", 2) == 1 {
			w.r.SetStatus(CompetitionStatus_AfterRegDeadline)
			closed = true
			before := len(w.r.waitingQueue)
			snap := w.regSnap()
			err := w.r.AddPlayers([]string{"late"})
			vAssert(err == ErrAfterRegDealline && len(w.r.waitingQueue) == before, "C09.registration-after-deadline-refused")
			vAssert(w.regSame(snap), "C09.refused-registration-changes-nothing")
			w.regCheck("@refused")
		}
		w.sync(w.order[ti], out)
		w.regCheck("@sync")
		// an id never seen, and the id of a table that was broken earlier: both are unknown tables now
		for _, unknown := range append([]string{"no-such-table"}, w.broken...) {
			snap := w.regSnap()
			rel, inc, err := w.r.SyncState(unknown, 1)
			vAssert(err == ErrNotFoundTable, "C09.unknown-table-refused")
			vAssert(rel == 0 && len(inc) == 0, "C09.refused-sync-asks-for-nothing")
			vAssert(w.regSame(snap), "C09.refused-sync-changes-nothing")
		}
		w.regCheck("@unknown")
	}
	if sweeps > 0 {
		regSettle(w, sweeps)
	}
}

// regSettle: with no registrations and no eliminations, K sweeps reach a state where a further sweep is idle.
func regSettle(w *regWorld, sweeps int) {
	for s := 0; s < sweeps; s++ {
		ids := append([]string{}, w.order...)
		rot := 0
		if len(ids) > 1 {
			rot = vChoice("sweep-order", len(ids))
		}
		for i := range ids {
			id := ids[(i+rot)%len(ids)]
			if _, ok := w.members[id]; ok {
				w.sync(id, 0)
			}
		}
	}
	w.regCheck("@settled")
	ids := append([]string{}, w.order...)
	for _, id := range ids {
		if _, ok := w.members[id]; !ok {
			continue
		}
		busy := w.sync(id, 0)
		vAssert(!busy, "C20.idle-after-k-sweeps")
	}
	vCover("reg.settled")
}

// Harness_Reg_EarlyOps: operations arriving before the start - registrations in two batches, a release
// with nobody to hand back, a sync naming a table that does not exist - open no table and lose nobody;
// the start then allocates as usual.
func Harness_Reg_EarlyOps(n1 int, n2 int) {
	w := regNew()
	w.register(n1)
	vAssert(len(w.order) == 0 && w.r.GetTableCount() == 0, "C19.no-table-before-start")
	err := w.r.ReleasePlayers("", []string{})
	vAssert(err == nil, "C09.release-accepted")
	vAssert(len(w.order) == 0 && w.r.GetTableCount() == 0, "C19.no-table-before-start")
	w.regCheck("@pending-release")
	w.register(n2)
	snap := w.regSnap()
	_, _, err = w.r.SyncState("no-such-table", 1)
	vAssert(err == ErrNotFoundTable, "C09.unknown-table-refused")
	vAssert(w.regSame(snap), "C09.refused-sync-changes-nothing")
	err = w.r.ReleasePlayers("no-such-table", []string{})
	vAssert(err == nil, "C09.release-accepted")
	vAssert(len(w.order) == 0 && w.r.GetTableCount() == 0, "C19.no-table-before-start")
	w.regCheck("@pending-2")
	w.started = true
	w.initial = true
	w.r.SetStatus(CompetitionStatus_Normal)
	w.initial = false
	w.regCheck("@started-after-early-ops")
	if n1+n2 >= w.min {
		vCover("reg.early-ops-then-tables")
	}
	regSettle(w, 1)
}

// Harness_Reg_Mix: registrations interleaved with a sync after the start - n registrants, start, l1 more,
// one sync of any live table with 0..4 eliminated, l2 more, then sweeps. (A table that was served only
// partly from the queue must not be topped up above its capacity by the next batch.)
func Harness_Reg_Mix(n int, l1 int, l2 int, sweeps int) {
	w := regNew()
	w.register(n)
	w.started = true
	w.initial = true
	w.r.SetStatus(CompetitionStatus_Normal)
	w.initial = false
	w.regCheck("@started")
	if l1 > 0 {
		w.register(l1)
		w.regCheck("@late-1")
	}
	if len(w.order) > 0 {
		ti := vChoice("table", len(w.order))
		out := vChoice("out", 5)
		w.sync(w.order[ti], out)
		w.regCheck("@sync")
		vCover("reg.mix-sync")
	}
	if l2 > 0 {
		w.register(l2)
		w.regCheck("@late-2")
	}
	if sweeps > 0 {
		regSettle(w, sweeps)
	}
}

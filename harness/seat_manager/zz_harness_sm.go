//go:build verif

package seat_manager

// Seat manager harnesses (DESIGN §3.2): C08, C17, C18.
// State = per seat (occupied: concrete shape; IsActive, IsReserved: symbolic), dealer / bb concrete
// shape, under Inv_SM; one operation with unconstrained integer arguments.

type smPre struct {
	max      int
	occ      []bool
	active   []bool
	reserved []bool
	dealer   int
	bb       int
}

func smPlayable(p *smPre, i int) bool {
	return vAnd(vAnd(p.occ[i], p.active[i]), !p.reserved[i])
}

// between: seat s lies strictly between a and b going clockwise from a (a != b allowed; a == b: all others)
func smBetween(max, a, s, b int) bool {
	ds := (s - a + max) % max
	db := (b - a + max) % max
	if db == 0 {
		db = max
	}
	return ds > 0 && ds < db
}

// smBuild builds a seat manager in an arbitrary state satisfying Inv_SM.
func smBuild(max int) (*SeatManager, *smPre) {
	return smBuildOcc(max, -1)
}

// smBuildOcc: occ < 0 ranges over every occupancy; otherwise the occupancy is the given bit mask.
func smBuildOcc(max int, occ int) (*SeatManager, *smPre) {
	sm := NewSeatManager(max)
	pre := &smPre{max: max}
	occMask := occ
	if occ < 0 {
		occMask = vChoice("occupancy", 1<<uint(max))
	}
	pre.dealer = vChoice("dealer", max+1) - 1
	pre.bb = -1
	if pre.dealer >= 0 {
		pre.bb = vChoice("bb", max+1) - 1
		if pre.bb == pre.dealer {
			vAssume(false) // renewSeatStatus never puts the big blind on the dealer's seat
		}
	}
	for i := 0; i < max; i++ {
		s := sm.seats[i]
		occ := (occMask>>uint(i))&1 == 1
		if occ {
			s.Player = i + 100
		}
		s.IsActive = vBool("active")
		s.IsReserved = vBool("reserved")
		// Join sets IsReserved on an occupied seat, Leave clears it, Reserve/Seat toggle it on any seat:
		// nothing ties the two flags together
		pre.occ = append(pre.occ, occ)
		pre.active = append(pre.active, s.IsActive)
		pre.reserved = append(pre.reserved, s.IsReserved)
	}
	if pre.dealer >= 0 {
		sm.dealer = sm.seats[pre.dealer]
	}
	if pre.bb >= 0 {
		sm.bb = sm.seats[pre.bb]
		sm.sb = sm.seats[pre.bb]
	}
	smInvAssume(pre)
	return sm, pre
}

// Inv_SM: inactive seats exist only strictly between the dealer and the big blind (as of the last
// successful Next); without a big blind every seat is active.
func smInvAssume(pre *smPre) {
	for i := 0; i < pre.max; i++ {
		if pre.dealer < 0 || pre.bb < 0 || !smBetween(pre.max, pre.dealer, i, pre.bb) {
			vAssume(pre.active[i])
		}
	}
}

func smInvAssert(sm *SeatManager, tag string) {
	max := sm.max
	d, b := -1, -1
	if sm.dealer != nil {
		d = sm.dealer.ID
	}
	if sm.bb != nil {
		b = sm.bb.ID
	}
	for i := 0; i < max; i++ {
		if d < 0 || b < 0 || !smBetween(max, d, i, b) {
			vAssert(sm.seats[i].IsActive, "C08.inv-inactive-only-between-dealer-and-bb"+tag)
		}
	}
	vAssert((sm.bb == nil) == (sm.sb == nil), "C08.inv-sb-and-bb-together"+tag)
}

func smCountPlayable(pre *smPre) int64 {
	c := int64(0)
	for i := 0; i < pre.max; i++ {
		c += vIte(smPlayable(pre, i), 1, 0)
	}
	return c
}

func smPostPlayable(sm *SeatManager, i int) bool {
	s := sm.seats[i]
	return vAnd(vAnd(s.Player != nil, s.IsActive), !s.IsReserved)
}

// Harness_SM_Next: one Next() from an arbitrary Inv_SM state.
func Harness_SM_Next(max int) {
	smNext(max, -1)
}

// Harness_SM_NextOcc: the same step for one fixed occupancy (bit mask), a slice of the larger table sizes
// that is cheap enough for the quick tier.
func Harness_SM_NextOcc(max int, occ int) {
	smNext(max, occ)
}

func smNext(max int, occ int) {
	sm, pre := smBuildOcc(max, occ)
	playable := smCountPlayable(pre)
	waiting := int64(0) // seated (not reserved) but inactive: let in by Next when needed
	for i := 0; i < max; i++ {
		waiting += vIte(vAnd(vAnd(pre.occ[i], !pre.active[i]), !pre.reserved[i]), 1, 0)
	}
	// late joiner: a seat strictly between dealer and bb that is occupied, not reserved, inactive
	pending := -1
	if pre.dealer >= 0 && pre.bb >= 0 {
		k := vChoice("pending", max+1) - 1
		if k >= 0 {
			if !pre.occ[k] || !smBetween(max, pre.dealer, k, pre.bb) {
				vAssume(false)
			}
			vAssume(vAnd(!pre.active[k], !pre.reserved[k]))
			// "other players staying put": the dealer and the big blind of the running hand are still there
			vAssume(smPlayable(pre, pre.dealer))
			vAssume(smPlayable(pre, pre.bb))
			pending = k
		}
	}
	vGuardOn(sm)
	err := sm.Next()
	vGuardOff()
	if vFork(playable >= 2) {
		vAssert(err == nil, "C17.next-succeeds-with-two-playable")
	}
	if vFork(playable+waiting < 2) {
		vAssert(err == ErrInsufficientNumberOfPlayers, "C17.refused-when-fewer-than-two-can-play")
	}
	if err != nil {
		vAssert(err == ErrInsufficientNumberOfPlayers, "C17.only-the-insufficient-players-error")
		// the refusal is legitimate only if letting the waiting players in still leaves fewer than two
		vAssert(playable+waiting < 2, "C17.refused-only-when-fewer-than-two-can-play-after-letting-waiting-players-in")
		vCover("sm.next-refused")
		smInvAssert(sm, "@next-refused")
		return
	}
	vAssert(sm.dealer != nil && sm.sb != nil && sm.bb != nil, "C08.positions-assigned")
	if sm.dealer == nil || sm.sb == nil || sm.bb == nil {
		return
	}
	nd, ns, nb := sm.dealer.ID, sm.sb.ID, sm.bb.ID
	// C17: the button goes to the first seat playable before the move, clockwise from the old dealer
	if vFork(playable >= 2) {
		start := pre.dealer
		first := -1
		for k := 1; k <= max; k++ {
			i := (start + k + max) % max
			if pre.dealer < 0 {
				i = k - 1
			}
			if first < 0 && vFork(smPlayable(pre, i)) {
				first = i
			}
		}
		vAssert(nd == first, "C17.button-to-first-playable-clockwise")
		vAssert(nd != pre.dealer, "C17.button-never-stays-put")
		vCover("sm.button-moves")
	}
	// C08: positions on playable seats (evaluated on the post-state)
	vAssert(smPostPlayable(sm, nd), "C08.dealer-playable")
	vAssert(smPostPlayable(sm, ns), "C08.sb-playable")
	vAssert(smPostPlayable(sm, nb), "C08.bb-playable")
	cnt := 0
	kfRegion := false
	firstAfter := func(from int) int {
		for k := 1; k <= max; k++ {
			i := (from + k) % max
			if vFork(smPostPlayable(sm, i)) {
				return i
			}
		}
		return -1
	}
	for i := 0; i < max; i++ {
		if vFork(smPostPlayable(sm, i)) {
			cnt++
		}
	}
	vAssert(cnt >= 2, "C08.at-least-two-playable-after-next")
	if cnt == 2 {
		vAssert(ns == nd, "C08.heads-up-dealer-is-small-blind")
		vAssert(nb == firstAfter(nd), "C08.heads-up-other-is-big-blind")
		vCover("sm.heads-up")
	} else if cnt >= 3 {
		// KF-C08-HEADSUP3: the heads-up layout is chosen before waiting players *behind the new big
		// blind* are let in. Region: the small blind sits on the dealer, and no seat that became playable
		// during this Next() lies between the old and the new dealer (those are let in by nextDealer
		// before the layout is chosen; if one of them is missed it is a different defect).
		kfRegion = ns == nd
		for i := 0; i < max; i++ {
			if pre.dealer >= 0 && smBetween(max, pre.dealer, i, nd) {
				kfRegion = vAnd(kfRegion, !vAnd(smPostPlayable(sm, i), !smPlayable(pre, i)))
			}
		}
		vAssertK(ns == firstAfter(nd), "C08.sb-first-playable-after-dealer", "KF-C08-HEADSUP3", kfRegion)
		vAssertK(nb == firstAfter(ns), "C08.bb-first-playable-after-sb", "KF-C08-HEADSUP3", kfRegion)
		vCover("sm.three-or-more")
	}
	// C08 late joiner, first half: every empty seat strictly between the new dealer and the new big blind
	// is switched off, so that whoever takes it has to wait for the button
	for i := 0; i < max; i++ {
		if smBetween(max, nd, i, nb) {
			st := sm.seats[i]
			vAssert(vImplies(st.Player == nil, !st.IsActive), "C08.empty-seats-between-dealer-and-bb-wait-for-the-button")
		}
	}
	// C08 late joiner
	if pending >= 0 {
		passed := smBetween(max, pre.dealer, pending, nd)
		if passed {
			vAssert(smPostPlayable(sm, pending), "C08.late-joiner-dealt-in-once-button-passed")
			vCover("sm.late-joiner-in")
		} else if pending != nd {
			// KF-C08-LATEJOIN-BEHIND-BB: "activate the rest of the seats" lets a waiting player in when
			// the new big blind lands in front of his seat (players who sat out between the old dealer and
			// the old big blind have come back), although the button has not reached him. Region: the
			// waiting seat lies strictly behind the new big blind, before the new dealer.
			if vFork(kfRegion) {
				vAssertK(!smPostPlayable(sm, pending), "C08.late-joiner-not-before-button-passes", "KF-C08-HEADSUP3", true)
			} else {
				vAssertK(!smPostPlayable(sm, pending), "C08.late-joiner-not-before-button-passes", "KF-C08-LATEJOIN-BEHIND-BB", smBetween(max, nb, pending, nd))
			}
			vCover("sm.late-joiner-waits")
		}
	}
	smInvAssert(sm, "@next")
}

// Harness_SM_Op: Join / Seat / Reserve / Leave with unconstrained integer arguments.
// op: 0 Join(seat), 1 Join(-1), 2 Seat, 3 Reserve, 4 Leave
func Harness_SM_Op(max int, op int) {
	sm, pre := smBuild(max)
	id := vInt("seat")
	if op == 0 {
		vAssume(id != -1) // Join(-1) is "any seat": op 1
	}
	if vFork(vAnd(id >= -3, id < max+3)) {
		vCover("sm.arg-near")
	} else {
		vCover("sm.arg-far")
	}
	countBefore := int64(0)
	for i := 0; i < max; i++ {
		if pre.occ[i] {
			countBefore++
		}
	}
	vAssert(int64(sm.GetPlayerCount()) == countBefore, "C18.count-matches-occupancy")
	var err error
	got := -1
	vGuardOn(sm)
	switch op {
	case 0:
		got, err = sm.Join(id, "newcomer")
	case 1:
		vMapOrder("rotations")
		got, err = sm.Join(-1, "newcomer")
	case 2:
		err = sm.Seat(id)
	case 3:
		err = sm.Reserve(id)
	case 4:
		err = sm.Leave(id)
	}
	vGuardOff()
	inRange := vFork(vAnd(id >= 0, id < max))
	cid := 0
	if inRange {
		cid = int(vConcrete(int64(id), 0, max-1))
	}
	unchangedExcept := func(except int) {
		for i := 0; i < max; i++ {
			if i == except {
				continue
			}
			s := sm.seats[i]
			vAssert(vAnd(vAnd((s.Player != nil) == pre.occ[i], s.IsActive == pre.active[i]), s.IsReserved == pre.reserved[i]), "C18.other-seats-untouched")
		}
	}
	after := int64(sm.GetPlayerCount())
	switch op {
	case 0:
		if !inRange || pre.occ[cid] {
			vAssert(err != nil && got == -1, "C18.join-occupied-or-out-of-range-refused")
			unchangedExcept(-1)
			vAssert(after == countBefore, "C18.refused-join-does-not-count")
			vCover("sm.join-refused")
		} else {
			vAssert(err == nil && got == cid, "C18.join-empty-seat-succeeds")
			s := sm.seats[cid]
			vAssert(s.Player != nil, "C18.joined-seat-occupied")
			vAssert(!smPostPlayable(sm, cid), "C18.joined-player-held-out-until-sit-in")
			unchangedExcept(cid)
			vAssert(after == countBefore+1, "C18.count-is-joins-minus-leaves")
			vCover("sm.join-ok")
		}
	case 1:
		free := false
		for i := 0; i < max; i++ {
			free = vOr(free, vAnd(!pre.occ[i], !pre.reserved[i]))
		}
		if err != nil {
			vAssert(err == ErrNoAvailableSeat, "C18.join-any-only-reports-no-seat")
			vAssert(!free, "C18.no-seat-reported-only-when-true")
			unchangedExcept(-1)
			vAssert(after == countBefore, "C18.refused-join-does-not-count")
			vCover("sm.join-any-full")
		} else {
			vAssert(got >= 0 && got < max, "C18.join-any-returns-a-seat")
			if got >= 0 && got < max {
				vAssert(!pre.occ[got], "C18.join-any-takes-an-empty-seat")
				vAssert(!pre.reserved[got], "C18.join-any-avoids-reserved-seats")
				vAssert(sm.seats[got].Player != nil, "C18.joined-seat-occupied")
				vAssert(!smPostPlayable(sm, got), "C18.joined-player-held-out-until-sit-in")
				unchangedExcept(got)
			}
			vAssert(after == countBefore+1, "C18.count-is-joins-minus-leaves")
			vCover("sm.join-any-ok")
		}
	case 2, 3:
		if !inRange {
			vAssert(err != nil, "C18.seat-or-reserve-out-of-range-refused")
			unchangedExcept(-1)
		} else {
			vAssert(err == nil, "C18.seat-or-reserve-succeeds")
			s := sm.seats[cid]
			vAssert((s.Player != nil) == pre.occ[cid] && s.IsActive == pre.active[cid], "C18.seat-or-reserve-only-toggles-reservation")
			vAssert(s.IsReserved == (op == 3), "C18.reservation-flag-set")
			unchangedExcept(cid)
		}
		vAssert(after == countBefore, "C18.count-unchanged-by-seat-or-reserve")
	case 4:
		// KF: Leave with a seat id outside the table dereferenced nil (fixed)
		if !inRange || !pre.occ[cid] {
			vAssert(err != nil, "C18.leave-empty-or-out-of-range-refused")
			unchangedExcept(-1)
			vAssert(after == countBefore, "C18.refused-leave-does-not-count")
			vCover("sm.leave-refused")
		} else {
			vAssert(err == nil, "C18.leave-succeeds")
			s := sm.seats[cid]
			vAssert(s.Player == nil && !s.IsReserved, "C18.leave-frees-exactly-that-seat")
			unchangedExcept(cid)
			vAssert(after == countBefore-1, "C18.count-is-joins-minus-leaves")
			vCover("sm.leave-ok")
		}
	}
	smInvAssert(sm, "@op")
}

// Harness_SM_Unroll: NewSeatManager(max) followed by k operations (base case of Inv_SM and a public-API
// history for everything the step harnesses assert about panics).
func Harness_SM_Unroll(max int, k int) {
	sm := NewSeatManager(max)
	smInvAssert(sm, "@new")
	joined := int64(0)
	for step := 0; step < k; step++ {
		op := vChoice("op", 5)
		switch op {
		case 0:
			s := vChoice("seat", max+1) - 1
			if _, err := sm.Join(s, step); err == nil {
				joined++
			}
		case 1:
			sm.Seat(vChoice("seat", max))
		case 2:
			sm.Reserve(vChoice("seat", max))
		case 3:
			if err := sm.Leave(vChoice("seat", max)); err == nil {
				joined--
			}
		case 4:
			if err := sm.Next(); err == nil {
				vAssert(sm.dealer != nil && sm.bb != nil, "C08.positions-assigned")
				vCover("sm.unroll-next-ok")
			}
		}
		vAssert(int64(sm.GetPlayerCount()) == joined, "C18.count-is-joins-minus-leaves")
		smInvAssert(sm, "@unroll")
	}
}

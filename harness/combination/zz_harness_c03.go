//go:build verif

package combination

// C03 — five-card hand ranking is the poker order.
//
// The pairwise statement is decomposed (DESIGN §4 C03) into
//  1. factorisation (one symbolic hand):  Score(h) = Score(canon(T(h))), Combination(h) = category(T(h)),
//     Score(h) > 0, returned cards are a permutation of the input, T(h) is a valid tuple of its category;
//  2. monotonicity on canonical hands (two symbolic tuples):  T1 <lex T2  =>  Score(canon(T1)) < Score(canon(T2)),
//     and T(canon(t)) = t.
// T(h) = (index of the category in the variant's table, d1..d5) is the reference written from the rules:
// digits = distinct ranks ordered by (multiplicity desc, rank desc); a straight contributes only its high
// card (5 for the wheel). Poker order := lexicographic order on T. Nothing here looks at how scores are
// computed, so an order-preserving re-encoding of scores raises no alarm.

const c03Ranks = "23456789TJQKA"

func c03Table(table int) PowerRankings {
	if table == 1 {
		return CombinationPowerShortDeck
	}
	return CombinationPowerStandard
}

func c03CatIndex(pr PowerRankings, c Combination) int {
	for i, x := range pr {
		if x == c {
			return i
		}
	}
	return -1
}

// rank value of a rank byte (branch-free)
func c03RankOf(b byte) int64 {
	r := int64(0)
	for k := 0; k < 13; k++ {
		r = vIte(b == c03Ranks[k], int64(k+2), r)
	}
	return r
}

// rank byte of a rank value (branch-free)
func c03ByteOf(r int64) byte {
	b := int64(0)
	for k := 0; k < 13; k++ {
		b = vIte(r == int64(k+2), int64(c03Ranks[k]), b)
	}
	return byte(b)
}

func c03Card(suit byte, rank int64) string {
	return string([]byte{suit, c03ByteOf(rank)})
}

// c03SymCard: a symbolic card of the deck (deck 0: ranks 2..A, deck 1: 6..A); the rank and the suit
// index are the unknowns, the card string is derived from them.
func c03SymCard(deck int) (string, byte, int64) {
	si := vInt64("suit")
	vAssume(si >= 0)
	vAssume(si <= 3)
	s := byte(vIte(si == 0, 'S', vIte(si == 1, 'H', vIte(si == 2, 'D', 'C'))))
	r := vInt64("rank")
	lo := int64(2)
	if deck == 1 {
		lo = 6
	}
	vAssume(r >= lo)
	vAssume(r <= 14)
	return string([]byte{s, c03ByteOf(r)}), s, r
}

type c03T struct {
	cat    Combination
	digits [5]int64
}

// c03Ref: the reference tuple of a hand given as ranks and suits (forks only on facts about the hand).
func c03Ref(r [5]int64, s [5]byte) c03T {
	// multiplicities (concrete on each path)
	cnt := [5]int{}
	for i := 0; i < 5; i++ {
		for j := 0; j < 5; j++ {
			if i == j || vFork(r[i] == r[j]) {
				cnt[i]++
			}
		}
	}
	// order positions by (multiplicity desc, rank desc)
	ord := []int{0, 1, 2, 3, 4}
	before := func(a, b int) bool {
		if cnt[a] != cnt[b] {
			return cnt[a] > cnt[b]
		}
		return vFork(r[a] > r[b])
	}
	for i := 1; i < 5; i++ {
		for j := i; j > 0 && before(ord[j], ord[j-1]); j-- {
			ord[j], ord[j-1] = ord[j-1], ord[j]
		}
	}
	// distinct ranks in that order
	var dist []int
	for _, p := range ord {
		dup := false
		for _, q := range dist {
			if vFork(r[p] == r[q]) {
				dup = true
			}
		}
		if !dup {
			dist = append(dist, p)
		}
	}
	flush := true
	for i := 1; i < 5; i++ {
		if !vFork(s[i] == s[0]) {
			flush = false
		}
	}
	straight := false
	high := int64(0)
	if len(dist) == 5 {
		hi, lo2, lo := r[dist[0]], r[dist[1]], r[dist[4]]
		if vFork(hi-lo == 4) {
			straight = true
			high = hi
		} else if vFork(vAnd(hi == 14, vAnd(lo2 == 5, lo == 2))) {
			straight = true
			high = 5
		}
	}
	t := c03T{}
	maxc := cnt[ord[0]]
	switch {
	case straight && flush:
		t.cat = CombinationStraightFlush
	case maxc == 4:
		t.cat = CombinationFourOfAKind
	case maxc == 3 && len(dist) == 2:
		t.cat = CombinationFullHouse
	case flush:
		t.cat = CombinationFlush
	case straight:
		t.cat = CombinationStraight
	case maxc == 3:
		t.cat = CombinationThreeOfAKind
	case maxc == 2 && len(dist) == 3:
		t.cat = CombinationTwoPair
	case maxc == 2:
		t.cat = CombinationPair
	default:
		t.cat = CombinationHighCard
	}
	if straight {
		t.digits[0] = high
	} else {
		for k, p := range dist {
			t.digits[k] = r[p]
		}
	}
	return t
}

// c03Valid: is (cat, d) a tuple some hand of the deck has? (lo = lowest rank of the deck)
func c03Valid(cat Combination, d [5]int64, lo int64) bool {
	in := func(x int64) bool { return vAnd(x >= lo, x <= 14) }
	zero := func(from int) bool {
		ok := true
		for k := from; k < 5; k++ {
			ok = vAnd(ok, d[k] == 0)
		}
		return ok
	}
	notStraight := func() bool {
		wheel := vAnd(d[0] == 14, vAnd(d[1] == 5, d[4] == 2))
		return vAnd(d[0]-d[4] != 4, !wheel)
	}
	switch cat {
	case CombinationHighCard, CombinationFlush:
		ok := vAnd(in(d[0]), in(d[4]))
		for k := 0; k < 4; k++ {
			ok = vAnd(ok, d[k] > d[k+1])
		}
		return vAnd(ok, notStraight())
	case CombinationPair:
		ok := vAnd(vAnd(in(d[0]), in(d[1])), vAnd(in(d[3]), zero(4)))
		ok = vAnd(ok, vAnd(d[1] > d[2], d[2] > d[3]))
		return vAnd(ok, vAnd(d[0] != d[1], vAnd(d[0] != d[2], d[0] != d[3])))
	case CombinationTwoPair:
		ok := vAnd(vAnd(in(d[0]), in(d[1])), vAnd(in(d[2]), zero(3)))
		return vAnd(ok, vAnd(d[0] > d[1], vAnd(d[2] != d[0], d[2] != d[1])))
	case CombinationThreeOfAKind:
		ok := vAnd(vAnd(in(d[0]), in(d[1])), vAnd(in(d[2]), zero(3)))
		return vAnd(ok, vAnd(d[1] > d[2], vAnd(d[0] != d[1], d[0] != d[2])))
	case CombinationStraight, CombinationStraightFlush:
		lowest := lo + 4
		if lo == 2 {
			lowest = 5 // the wheel
		}
		return vAnd(vAnd(d[0] >= lowest, d[0] <= 14), zero(1))
	case CombinationFullHouse, CombinationFourOfAKind:
		return vAnd(vAnd(in(d[0]), in(d[1])), vAnd(d[0] != d[1], zero(2)))
	}
	return false
}

// c03Canon: the canonical hand of a tuple.
func c03Canon(cat Combination, d [5]int64) []string {
	switch cat {
	case CombinationHighCard:
		return []string{c03Card('S', d[0]), c03Card('H', d[1]), c03Card('H', d[2]), c03Card('H', d[3]), c03Card('H', d[4])}
	case CombinationFlush:
		return []string{c03Card('S', d[0]), c03Card('S', d[1]), c03Card('S', d[2]), c03Card('S', d[3]), c03Card('S', d[4])}
	case CombinationPair:
		return []string{c03Card('S', d[0]), c03Card('H', d[0]), c03Card('S', d[1]), c03Card('H', d[2]), c03Card('H', d[3])}
	case CombinationTwoPair:
		return []string{c03Card('S', d[0]), c03Card('H', d[0]), c03Card('S', d[1]), c03Card('H', d[1]), c03Card('D', d[2])}
	case CombinationThreeOfAKind:
		return []string{c03Card('S', d[0]), c03Card('H', d[0]), c03Card('D', d[0]), c03Card('S', d[1]), c03Card('H', d[2])}
	case CombinationFullHouse:
		return []string{c03Card('S', d[0]), c03Card('H', d[0]), c03Card('D', d[0]), c03Card('S', d[1]), c03Card('H', d[1])}
	case CombinationFourOfAKind:
		return []string{c03Card('S', d[0]), c03Card('H', d[0]), c03Card('D', d[0]), c03Card('C', d[0]), c03Card('S', d[1])}
	case CombinationStraight, CombinationStraightFlush:
		other := byte('H')
		if cat == CombinationStraightFlush {
			other = 'S'
		}
		h := d[0]
		last := vIte(h == 5, 14, h-4) // the wheel: 5 4 3 2 A
		return []string{c03Card('S', h), c03Card(other, h-1), c03Card(other, h-2), c03Card(other, h-3), c03Card(other, last)}
	}
	return nil
}

func c03Lo(deck int) int64 {
	if deck == 1 {
		return 6
	}
	return 2
}

// Harness_C03_Factor: step 1 for one symbolic hand. sortedInput: 0 arbitrary input order, 1 non-increasing
// rank order, 2 rank order with one arbitrary transposition.
func Harness_C03_Factor(table int, deck int, sortedInput int) {
	pr := c03Table(table)
	var cards [5]string
	var s [5]byte
	var r [5]int64
	for i := 0; i < 5; i++ {
		cards[i], s[i], r[i] = c03SymCard(deck)
		for j := 0; j < i; j++ {
			vAssume(!vAnd(s[i] == s[j], r[i] == r[j])) // five different cards
		}
		if sortedInput != 0 && i > 0 {
			vAssume(r[i-1] >= r[i]) // quick-tier bound: input given in non-increasing rank order
		}
	}
	if deck == 1 {
		// how a short-deck A-6-7-8-9 is classed is not fixed by the property
		a69 := true
		for _, want := range []int64{14, 9, 8, 7, 6} {
			has := false
			for i := 0; i < 5; i++ {
				has = vOr(has, r[i] == want)
			}
			a69 = vAnd(a69, has)
		}
		vAssume(!a69)
	}
	if sortedInput == 2 {
		// thorough-tier bound: rank order disturbed by one arbitrary transposition (or none)
		k := vChoice("transposition", 11)
		if k > 0 {
			pairs := [10][2]int{{0, 1}, {0, 2}, {0, 3}, {0, 4}, {1, 2}, {1, 3}, {1, 4}, {2, 3}, {2, 4}, {3, 4}}
			a, b := pairs[k-1][0], pairs[k-1][1]
			cards[a], cards[b] = cards[b], cards[a]
			s[a], s[b] = s[b], s[a]
			r[a], r[b] = r[b], r[a]
		}
	}
	ps := CalculatePower(pr, []string{cards[0], cards[1], cards[2], cards[3], cards[4]})
	t := c03Ref(r, s)
	vAssert(ps.Combination == t.cat, "C03.category-named-correctly")
	vAssert(ps.Score > 0, "C03.score-positive")
	vAssert(c03Valid(t.cat, t.digits, c03Lo(deck)), "C03.reference-tuple-valid")
	// the returned cards are the input cards
	vAssert(len(ps.Cards) == 5, "C03.returns-five-cards")
	if len(ps.Cards) == 5 {
		for i := 0; i < 5; i++ {
			n := int64(0)
			for _, c := range ps.Cards {
				n += vIte(vAnd(c.Suit == string([]byte{s[i]}), int64(c.Rank) == r[i]), 1, 0)
			}
			vAssert(n == 1, "C03.returned-cards-are-a-permutation-of-the-input")
		}
	}
	ps2 := CalculatePower(pr, c03Canon(t.cat, t.digits))
	vAssert(ps2.Score == ps.Score, "C03.score-depends-only-on-the-reference-tuple")
	vAssert(ps2.Combination == t.cat, "C03.canonical-hand-has-the-same-category")
	vObserve("score", int64(ps.Score))
	vObserve("category", int64(t.cat))
	vCover("C03.factor")
	if t.cat == CombinationStraight && t.digits[0] == 5 {
		vCover("C03.wheel")
	}
}

func c03SymTuple(cat Combination, lo int64, name string) [5]int64 {
	var d [5]int64
	for k := 0; k < 5; k++ {
		d[k] = vInt64(name)
		vAssume(d[k] >= 0)
		vAssume(d[k] <= 14)
	}
	vAssume(c03Valid(cat, d, lo))
	return d
}

// Harness_C03_Mono: step 2 for the pair of categories with table indexes i1 <= i2.
func Harness_C03_Mono(table int, deck int, i1 int, i2 int) {
	pr := c03Table(table)
	c1, c2 := pr[i1], pr[i2]
	lo := c03Lo(deck)
	d1 := c03SymTuple(c1, lo, "t1")
	d2 := c03SymTuple(c2, lo, "t2")
	if i1 == i2 {
		// t1 <lex t2
		less := false
		eq := true
		for k := 0; k < 5; k++ {
			less = vOr(less, vAnd(eq, d1[k] < d2[k]))
			eq = vAnd(eq, d1[k] == d2[k])
		}
		vAssume(less)
	}
	h1 := c03Canon(c1, d1)
	h2 := c03Canon(c2, d2)
	p1 := CalculatePower(pr, h1)
	p2 := CalculatePower(pr, h2)
	vAssert(p1.Score < p2.Score, "C03.higher-tuple-higher-score")
	vAssert(p1.Combination == c1 && p2.Combination == c2, "C03.category-named-correctly")
	// T(canon(t)) = t
	for n, h := range [][]string{h1, h2} {
		var s [5]byte
		var r [5]int64
		for i := 0; i < 5; i++ {
			s[i] = h[i][0]
			r[i] = c03RankOf(h[i][1])
		}
		t := c03Ref(r, s)
		want, wc := d1, c1
		if n == 1 {
			want, wc = d2, c2
		}
		same := t.cat == wc
		for k := 0; k < 5; k++ {
			same = vAnd(same, t.digits[k] == want[k])
		}
		vAssert(same, "C03.reference-of-canonical-hand-is-the-tuple")
	}
	vObserve("score1", int64(p1.Score))
	vObserve("score2", int64(p2.Score))
	vCover("C03.mono")
}

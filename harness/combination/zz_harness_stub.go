//go:build verif

package combination

// Stand-in for CalculatePower used by the C10 harness: the score and category of a selection are
// uninterpreted functions of the selection (as a set of cards): the same set gets the same symbolic
// score wherever it is evaluated. The evaluator's own correctness is C03.

func vSelName(cards []string) string {
	s := append([]string{}, cards...)
	for i := 1; i < len(s); i++ {
		for j := i; j > 0 && s[j] < s[j-1]; j-- {
			s[j], s[j-1] = s[j-1], s[j]
		}
	}
	name := ""
	for _, c := range s {
		name += c
	}
	return name
}

func vStubCalculatePower(pr PowerRankings, cardSymbols []string) *PowerState {
	name := vSelName(cardSymbols)
	return &PowerState{
		Combination: Combination(vNamedInt("comb:" + name)),
		Score:       uint64(vNamedInt("score:" + name)),
		Cards:       GetCardStates(cardSymbols),
	}
}

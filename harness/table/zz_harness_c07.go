//go:build verif

package table

import (
	"github.com/weedbox/pokerface"
	"github.com/weedbox/pokerface/combination"
	"github.com/weedbox/pokerface/pot"
)

// C07 — a hand can be resumed from its serialized state at any wait point.
// Relational step harness: the same symbolic wait-point state S is (A) operated in memory
// (NewGameFromState on a complete in-memory copy, including everything JSON drops) and (B) handed to
// the real stateless backend (table.NativeBackend.<Op>: cloneState -> NewGameFromState -> op ->
// cloneState). Both must agree on acceptance and, up to UpdatedAt, on the resulting JSON state, and
// the backend must not touch the state handed to it.

const c07Limit = int64(1) << 40

var c07Rounds = []string{"preflop", "flop", "turn", "river"}

func c07Positions(n, d int) [][]string {
	pos := make([][]string, n)
	for i := range pos {
		pos[i] = []string{}
	}
	if n == 2 {
		pos[d] = []string{"dealer", "sb"}
		pos[(d+1)%n] = []string{"bb"}
		return pos
	}
	pos[d] = []string{"dealer"}
	pos[(d+1)%n] = []string{"sb"}
	pos[(d+2)%n] = []string{"bb"}
	for k := 3; k < n; k++ {
		pos[(d+k)%n] = []string{"ug"}
	}
	return pos
}

// c07State: skeleton of a hand on the given street with symbolic accounts (I1/I2 of DESIGN §3.1).
func c07State(n, street int, event string, cur int) *pokerface.GameState {
	deck := pokerface.NewStandardDeckCards()
	gs := &pokerface.GameState{GameID: "verif", CreatedAt: vInt64("created"), UpdatedAt: vInt64("updated")}
	gs.Meta = pokerface.Meta{Limit: "no", HoleCardsCount: 2, CombinationPowers: combination.CombinationPowerStandard, Deck: deck, BurnCount: 1}
	pos := c07Positions(n, 0)
	dp := 0
	st := &gs.Status
	bb := vInt64("BB")
	sb := vInt64("SB")
	for _, v := range []int64{bb, sb} {
		vAssume(v >= 0)
		vAssume(v < c07Limit)
	}
	gs.Meta.Blind = pokerface.BlindSetting{SB: sb, BB: bb}
	st.MiniBet = bb
	sumW, maxW := int64(0), int64(0)
	alive, movable := int64(0), int64(0)
	ll := pot.NewLevelList()
	for i := 0; i < n; i++ {
		po, w, s := vInt64("pot"), vInt64("wager"), vInt64("stack")
		for _, v := range []int64{po, w, s} {
			vAssume(v >= 0)
			vAssume(v < c07Limit)
		}
		vAssume(po+w+s > 0)
		ps := &pokerface.PlayerState{
			Idx: i, Positions: pos[i], AllowedActions: make([]string, 0),
			Fold: vBool("fold"), Acted: vBool("acted"), VPIP: vBool("vpip"),
			Pot: po, Wager: w, StackSize: s, InitialStackSize: s + w, Bankroll: po + w + s,
			HoleCards:   deck[dp : dp+2],
			Combination: &pokerface.CombinationInfo{Type: "HighCard", Cards: []string{}, Power: 1 + i},
		}
		dp += 2
		gs.Players = append(gs.Players, ps)
		sumW += w
		maxW = vIte(w > maxW, w, maxW)
		alive += vIte(!ps.Fold, 1, 0)
		movable += vIte(vAnd(!ps.Fold, s > 0), 1, 0)
		if event == "RoundClosed" {
			ll.AddContributor(po+w, i, false)
		}
	}
	st.Board = make([]string, 0)
	st.Burned = make([]string, 0)
	if street >= 1 {
		st.Burned = append(st.Burned, deck[dp])
		st.Board = append(st.Board, deck[dp+1:dp+4]...)
		dp += 4
	}
	for k := 2; k <= street; k++ {
		st.Burned = append(st.Burned, deck[dp])
		st.Board = append(st.Board, deck[dp+1])
		dp += 2
	}
	st.CurrentDeckPosition = dp
	st.Round = c07Rounds[street]
	st.CurrentEvent = event
	st.CurrentRoundPot = sumW
	st.CurrentWager = maxW
	st.PreviousRaiseSize = vInt64("prs")
	vAssume(st.PreviousRaiseSize >= 0)
	vAssume(st.PreviousRaiseSize < c07Limit)
	st.CurrentRaiser = 0
	st.CurrentPlayer = cur
	st.LastAction = &pokerface.Action{Source: -1, Type: "next"}
	st.Pots = make([]*pot.Pot, 0)
	if event == "RoundClosed" {
		// published pots, with their in-memory-only level lists (not serialized)
		st.Pots = ll.GetPots()
	}
	vAssume(alive >= 2)
	if event == "RoundStarted" {
		vAssume(movable >= 1)
	}
	return gs
}

// op: 0 fold 1 check 2 call 3 allin 4 bet 5 raise 6 pass 7 pay 8 ready 9 next 10 payante 11 payblinds
func c07Mem(g pokerface.Game, op int, x int64) error {
	switch op {
	case 0:
		return g.Fold()
	case 1:
		return g.Check()
	case 2:
		return g.Call()
	case 3:
		return g.Allin()
	case 4:
		return g.Bet(x)
	case 5:
		return g.Raise(x)
	case 6:
		return g.Pass()
	case 7:
		return g.Pay(x)
	case 8:
		return g.ReadyForAll()
	case 9:
		return g.Next()
	case 10:
		return g.PayAnte()
	case 11:
		return g.PayBlinds()
	}
	panic("bad op")
}

func c07Backend(nb *NativeBackend, gs *pokerface.GameState, op int, x int64) (*pokerface.GameState, error) {
	switch op {
	case 0:
		return nb.Fold(gs)
	case 1:
		return nb.Check(gs)
	case 2:
		return nb.Call(gs)
	case 3:
		return nb.Allin(gs)
	case 4:
		return nb.Bet(gs, x)
	case 5:
		return nb.Raise(gs, x)
	case 6:
		return nb.Pass(gs)
	case 7:
		return nb.Pay(gs, x)
	case 8:
		return nb.ReadyForAll(gs)
	case 9:
		return nb.Next(gs)
	case 10:
		return nb.PayAnte(gs)
	case 11:
		return nb.PayBlinds(gs)
	}
	panic("bad op")
}

// wait: 0 = RoundStarted (seat cur to act), 1 = ReadyRequested, 2 = RoundClosed
func Harness_C07(n int, street int, wait int, cur int, op int) {
	events := []string{"RoundStarted", "ReadyRequested", "RoundClosed"}
	s := c07State(n, street, events[wait], cur)
	pf := pokerface.NewPokerFace()
	if wait == 0 {
		// the seat to act has been offered its actions (part of the serialized state)
		g0 := pf.NewGameFromState(s)
		p := g0.Player(cur)
		p.AllowActions(g0.GetAvailableActions(p))
	} else {
		for _, p := range s.Players {
			vAssume(!p.Acted)
		}
	}
	x := int64(0)
	if op == 4 || op == 5 || op == 7 {
		x = vInt64("amount")
		vAssume(x > -4*c07Limit)
		vAssume(x < 4*c07Limit)
	}
	// (A) in memory
	memState := vCloneStateT(s)
	gA := pf.NewGameFromState(memState)
	errA := c07Mem(gA, op, x)
	// (B) through the stateless backend
	handed := vCloneStateT(s)
	nb := NewNativeBackend()
	out, errB := c07Backend(nb, handed, op, x)
	vAssert(vSameStateT(handed, s), "C07.backend-does-not-modify-its-input")
	vAssert((errA == nil) == (errB == nil), "C07.same-acceptance")
	vObserveB("accepted", errA == nil)
	if errA != nil || errB != nil {
		vAssert(out == nil, "C07.refusal-returns-no-state")
		vCover("C07.refused")
		return
	}
	vAssert(out != nil, "C07.accepted-returns-state")
	if out == nil {
		return
	}
	want := vJSONCloneStateT(gA.GetState())
	want.UpdatedAt = 0
	out.UpdatedAt = 0
	vAssert(vSameStateT(want, out), "C07.same-state-up-to-timestamps")
	// and the result is itself complete: one more hop changes nothing
	again := vJSONCloneStateT(out)
	vAssert(vSameStateT(again, out), "C07.serialized-state-is-a-fixed-point")
	vCover("C07.accepted")
}

// Harness_C07_Two: two consecutive operations. (A) one in-memory game object lives through both;
// (B) the stateless backend is called twice (a JSON hop before, between and after). Anything the engine
// keeps outside the serialized state while handling the first operation and uses in the second makes
// the two diverge.
func Harness_C07_Two(n int, street int, cur int, op1 int, op2 int) {
	s := c07State(n, street, "RoundStarted", cur)
	pf := pokerface.NewPokerFace()
	g0 := pf.NewGameFromState(s)
	p := g0.Player(cur)
	p.AllowActions(g0.GetAvailableActions(p))
	amount := func(op int, name string) int64 {
		if op == 4 || op == 5 || op == 7 {
			x := vInt64(name)
			vAssume(x > -4*c07Limit)
			vAssume(x < 4*c07Limit)
			return x
		}
		return 0
	}
	x1 := amount(op1, "amount1")
	x2 := amount(op2, "amount2")
	// (A)
	gA := pf.NewGameFromState(vCloneStateT(s))
	errA1 := c07Mem(gA, op1, x1)
	// (B) first hop
	nb := NewNativeBackend()
	out1, errB1 := c07Backend(nb, vCloneStateT(s), op1, x1)
	vAssert((errA1 == nil) == (errB1 == nil), "C07.same-acceptance")
	if errA1 != nil || errB1 != nil || out1 == nil {
		return
	}
	if gA.GetState().Status.CurrentEvent != "RoundStarted" {
		return // the round closed: the one-step harness covers what follows
	}
	errA2 := c07Mem(gA, op2, x2)
	out2, errB2 := c07Backend(nb, out1, op2, x2)
	vAssert((errA2 == nil) == (errB2 == nil), "C07.same-acceptance-second-step")
	if errA2 != nil || errB2 != nil || out2 == nil {
		// also the refusal must leave both sides in the same state
		want := vJSONCloneStateT(gA.GetState())
		want.UpdatedAt = 0
		out1.UpdatedAt = 0
		vAssert(vSameStateT(want, out1), "C07.same-state-after-first-step")
		vCover("C07.two-refused")
		return
	}
	want := vJSONCloneStateT(gA.GetState())
	want.UpdatedAt = 0
	out2.UpdatedAt = 0
	vAssert(vSameStateT(want, out2), "C07.same-state-after-two-steps")
	vCover("C07.two-accepted")
}

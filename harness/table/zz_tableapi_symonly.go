//go:build verif

package table

import "github.com/weedbox/pokerface"

func vCloneStateT(gs *pokerface.GameState) *pokerface.GameState
func vSameStateT(a, b *pokerface.GameState) bool
func vJSONCloneStateT(gs *pokerface.GameState) *pokerface.GameState

//go:build verif

package table

import (
	"bytes"
	"encoding/json"

	"github.com/weedbox/pokerface"
)

// native counterparts: a JSON round trip is what it is; in-memory deep copy is taken through JSON too
// (the native side only needs "a copy"), equality is JSON equality.
func vCloneStateT(gs *pokerface.GameState) *pokerface.GameState {
	data, err := json.Marshal(gs)
	if err != nil {
		panic(err)
	}
	var c pokerface.GameState
	if err := json.Unmarshal(data, &c); err != nil {
		panic(err)
	}
	// Pot.Levels is not serialized; keep the in-memory copy complete
	for i, p := range gs.Status.Pots {
		if i < len(c.Status.Pots) {
			c.Status.Pots[i].Levels = p.Levels
		}
	}
	return &c
}

func vJSONCloneStateT(gs *pokerface.GameState) *pokerface.GameState { return cloneState(gs) }

func vSameStateT(a, b *pokerface.GameState) bool {
	x, _ := json.Marshal(a)
	y, _ := json.Marshal(b)
	return bytes.Equal(x, y)
}

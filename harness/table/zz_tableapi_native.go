//go:build verif

package table

import (
	"bytes"
	"encoding/json"
	"reflect"
	"unsafe"

	"github.com/weedbox/pokerface"
)

// native counterparts: the in-memory copy is a true deep copy (reflection, unexported fields
// included); the JSON clone is the backend's own cloneState; equality is JSON equality.

func vDeepCopyValue(dst, src reflect.Value, seen map[unsafe.Pointer]reflect.Value) {
	switch src.Kind() {
	case reflect.Ptr:
		if src.IsNil() {
			return
		}
		if v, ok := seen[src.UnsafePointer()]; ok {
			dst.Set(v)
			return
		}
		n := reflect.New(src.Type().Elem())
		seen[src.UnsafePointer()] = n
		vDeepCopyValue(n.Elem(), src.Elem(), seen)
		dst.Set(n)
	case reflect.Struct:
		for i := 0; i < src.NumField(); i++ {
			sf := src.Field(i)
			df := dst.Field(i)
			if !df.CanSet() {
				df = reflect.NewAt(df.Type(), unsafe.Pointer(df.UnsafeAddr())).Elem()
				if sf.CanAddr() {
					sf = reflect.NewAt(sf.Type(), unsafe.Pointer(sf.UnsafeAddr())).Elem()
				} else {
					continue
				}
			}
			vDeepCopyValue(df, sf, seen)
		}
	case reflect.Slice:
		if src.IsNil() {
			return
		}
		n := reflect.MakeSlice(src.Type(), src.Len(), src.Len())
		for i := 0; i < src.Len(); i++ {
			vDeepCopyValue(n.Index(i), src.Index(i), seen)
		}
		dst.Set(n)
	case reflect.Map:
		if src.IsNil() {
			return
		}
		n := reflect.MakeMapWithSize(src.Type(), src.Len())
		it := src.MapRange()
		for it.Next() {
			v := reflect.New(src.Type().Elem()).Elem()
			vDeepCopyValue(v, it.Value(), seen)
			n.SetMapIndex(it.Key(), v)
		}
		dst.Set(n)
	case reflect.Interface:
		if src.IsNil() {
			return
		}
		v := reflect.New(src.Elem().Type()).Elem()
		vDeepCopyValue(v, src.Elem(), seen)
		dst.Set(v)
	default:
		dst.Set(src)
	}
}

func vCloneStateT(gs *pokerface.GameState) *pokerface.GameState {
	var c *pokerface.GameState
	vDeepCopyValue(reflect.ValueOf(&c).Elem(), reflect.ValueOf(gs), map[unsafe.Pointer]reflect.Value{})
	return c
}

func vJSONCloneStateT(gs *pokerface.GameState) *pokerface.GameState { return cloneState(gs) }

func vSameStateT(a, b *pokerface.GameState) bool {
	x, _ := json.Marshal(a)
	y, _ := json.Marshal(b)
	return bytes.Equal(x, y)
}
